#!/usr/bin/env python3
"""llvm-cov show (text) -> per-file list of source lines with execution count 0 (top-level listing only, instantiation sub-views skipped)."""
import re, sys, collections
cur = None; unc = collections.OrderedDict()
for l in open(sys.argv[1], errors='replace'):
    m = re.match(r"^(/repo/src/\S+):$", l)
    if m: cur = m.group(1); unc[cur] = []; continue
    if cur is None: continue
    m = re.match(r"^\s*(\d+)\|\s*([0-9.kME]*)\|(.*)$", l)
    if m and not l.startswith("  |") and m.group(2) == '0':
        unc[cur].append((int(m.group(1)), m.group(3)))
out = open(sys.argv[2], 'w')
for f, ls in unc.items():
    if not ls: continue
    out.write(f"== {f} ({len(ls)} lines never executed)\n")
    prev = None
    for n, t in ls:
        if prev is not None and n != prev + 1: out.write("   ...\n")
        out.write(f"{n:5d}| {t}\n"); prev = n
