#!/bin/sh
# usage: san.sh <thread|address> <seed> <runs>
# Builds the harness with a compiler sanitizer (nightly, offline; thread sanitizer needs -Zbuild-std) and runs the
# C08 concurrent workload in one process. Prints the workload summary and "SAN reports=<n>" (report blocks counted
# in the log, de-duplicated by first pearl frame in "SAN pearl_frames=...").
KIND=$1; SEED=${2:-1}; RUNS=${3:-6}
cd "$(dirname "$0")/../harness" || exit 2
export CARGO_NET_OFFLINE=true
TD=target-san-$KIND
LOG=/dev/shm/pv-san-$KIND-$$.log
if [ "$KIND" = thread ]; then
    RUSTFLAGS="-Zsanitizer=thread" cargo +nightly build -Zbuild-std --target x86_64-unknown-linux-gnu --profile verif --target-dir $TD -q >$TD.build.log 2>&1 || { echo "SAN build-failed"; tail -5 $TD.build.log; exit 2; }
    TSAN_OPTIONS="halt_on_error=0 report_signal_unsafe=0 log_path=$LOG" $TD/x86_64-unknown-linux-gnu/verif/pv c08san $SEED $RUNS
    RC=$?
    [ $RC = 66 ] && RC=0
else
    RUSTFLAGS="-Zsanitizer=address -Cforce-frame-pointers=yes" cargo +nightly build --target x86_64-unknown-linux-gnu --profile verif --target-dir $TD -q >$TD.build.log 2>&1 || { echo "SAN build-failed"; tail -5 $TD.build.log; exit 2; }
    ASAN_OPTIONS="halt_on_error=0 detect_leaks=0 log_path=$LOG" $TD/x86_64-unknown-linux-gnu/verif/pv c08san $SEED $RUNS
    RC=$?
fi
N=$(cat $LOG.* 2>/dev/null | grep -c -E "WARNING: ThreadSanitizer|ERROR: AddressSanitizer")
FR=$(cat $LOG.* 2>/dev/null | grep -E "^\s+#[0-9]+ .*pearl::" | sed -E 's/.* (pearl::[A-Za-z0-9_:<>]+).*/\1/' | sort -u | head -5 | tr '\n' ';')
echo "SAN reports=$N pearl_frames=$FR exit=$RC"
cat $LOG.* 2>/dev/null | head -60 > $TD.last-reports.log
rm -f $LOG.*
exit 0
