#!/usr/bin/env python3
"""Mutation validation: applies small source mutations to a scratch worktree of /repo and runs the
named checks against it (VERIF_REPO). Usage: tools/mutation.py [--slot N] [--tier quick] name[,name...] | --list | --all
Worktrees live under /tmp/pv-mut-<slot> and are removed at the end (with the shadow harness build)."""
import subprocess, sys, os, shutil, json, hashlib

M = {}
def mut(name, file, old, new, checks, note=""):
    M[name] = dict(file=file, old=old, new=new, checks=checks, note=note)

# ---- C01
mut("c01_push_lt", "src/blob/index/core.rs", "v[pos].timestamp() <= h.timestamp()", "v[pos].timestamp() < h.timestamp()", ["C01"], "tie-break in in-memory insertion")
mut("c01_push_lt_only_gt4", "src/blob/index/core.rs",
    "while pos < v.len() && v[pos].timestamp() <= h.timestamp() {",
    "while pos < v.len() && (v[pos].timestamp() < h.timestamp() || (v.len() <= 4 && v[pos].timestamp() == h.timestamp())) {",
    ["C01"], "mis-orders ties only once a key has more than four versions (binary-search insertion path)")
mut("c01_blobs_sorted_as_strings", "src/storage/core.rs", "        blobs.sort_by_key(Blob::id);", "        blobs.sort_by_key(|b| b.id().to_string());", ["C01", "C03"], "blobs ordered by the decimal string of their id at start-up: wrong only from 11 blobs on (10 < 9)")
mut("c01_latest_ge", "src/storage/read_result.rs", """    pub fn latest(self, other: ReadResult<Entry>) -> ReadResult<Entry> {
        if other.timestamp() > self.timestamp() {""", """    pub fn latest(self, other: ReadResult<Entry>) -> ReadResult<Entry> {
        if other.timestamp() >= self.timestamp() {""", ["C01"], "cross-blob tie goes to the older blob")
mut("c01_mem_first", "src/blob/index/core.rs", "data.headers.get(key).and_then(|h| h.last()).cloned()", "data.headers.get(key).and_then(|h| h.first()).cloned()", ["C01"])
mut("c01_no_rev_append", "src/blob/index/bptree/serializer.rs", ".flat_map(|r| r.1.iter().rev())", ".flat_map(|r| r.1.iter())", ["C01", "C09"])
mut("c01_skip_active", "src/storage/core.rs", "            latest_entry = latest_entry.latest(ablob_entry);\n", "            if ablob_entry.is_found() { latest_entry = latest_entry.latest(ablob_entry); }\n", ["C01"], "deletion marker in the active blob ignored")
# ---- C02
mut("c02_cut_3blobs", "src/storage/core.rs", "        if affected_blobs_count > 1 {", "        if affected_blobs_count > 2 {", ["C02"], "cross-blob cut only when three or more blobs contribute")
mut("c02_meta_below_marker", "src/blob/core.rs", """        if deleted_ts.is_some() {
            headers.truncate(headers.len() - 1);
        }
        let entries""", """        if deleted_ts.is_some() {
            headers.truncate(headers.len() - 1);
        }
        let headers = if deleted_ts.is_some() { self.index.get_all(key).await.map(|_| headers.clone()).unwrap_or(headers) } else { headers };
        let entries""", ["C02"], "placeholder (no-op) - sanity: must NOT be caught")
mut("c02_delete_closed_always", "src/blob/core.rs", "        if !only_if_presented || self.index.get_latest(key).await?.is_found() {", "        if !only_if_presented || !self.index.get_latest(key).await?.is_not_found() {", ["C02"], "marks blobs whose local winner is already a marker")
mut("c02_dup_ignores_meta", "src/storage/core.rs", "&& self.contains_with(key, meta.as_ref()).await?.is_found()", "&& self.contains_with(key, None).await?.is_found()", ["C02"])
# ---- C04
mut("c04_delete_no_load", "src/blob/core.rs", """        if on_disk {
            self.load_index().await?;
        }""", """        if on_disk && false {
            self.load_index().await?;
        }""", ["C04", "C02"])
mut("c04_close_no_push", "src/storage/core.rs", """            if let Some(ablob) = safe.active_blob.take() {
                blobs.push((*ablob).into_inner()).await;
            }""", """            if let Some(ablob) = safe.active_blob.take() {
                let ablob = (*ablob).into_inner();
                if ablob.records_count() > 0 { blobs.push(ablob).await; }
            }""", ["C04", "C15"], "closing an empty active blob forgets it")
# ---- C05
mut("c05_no_audit_load_data", "src/blob/entry.rs", "        self.header.data_checksum_audit(&data)?;\n        Ok(data)", "        Ok(data)", ["C05"])
mut("c05_no_validate_load", "src/blob/entry.rs", "        Record::new(self.header, meta, data_buf)\n            .validate()\n            .with_context(|| format!(\"validation failed for Record loaded from BLOB: {}\", self.blob_file_name.as_path().display()))\n", "        Ok(Record::new(self.header, meta, data_buf))\n", ["C05"], "checksum verification removed from the read path")
mut("c05_include_data_off", "src/record/record.rs", "let include_data = head_size + data.len() <= MAX_SINGLE_PASS_DATA_SIZE;", "let include_data = head_size + data.len() <= MAX_SINGLE_PASS_DATA_SIZE + 1;", ["C05"], "EQUIVALENT on behaviour (one more byte in the single buffer)")
mut("c05_double_offset", "src/io/unix/sync.rs", "                offset = offset + b1.len() as u64;", "                offset = offset + b1.len() as u64 - ((b1.len() == 4000) as u64);", ["C05"], "needle: fires for one head size (exactly 4000 bytes of header+meta) only; sanity that a miss is possible - not hit by the sampled meta sizes")
mut("c05_regen_no_data_check", "src/blob/core.rs", "            if let Some(data) = data {\n                header.data_checksum_audit(&data)", "            if let Some(data) = data.filter(|_| false) {\n                header.data_checksum_audit(&data)", ["C05"], "validate_data_during_index_regen ignored")
# ---- C03
mut("c03_stale_gt", "src/blob/index/bptree/core.rs", "        if self.header.blob_size() != blob_size {", "        if self.header.blob_size() > blob_size {", ["C03"], "stale index (smaller recorded blob size) accepted")
mut("c03_skip_written", "src/blob/index/bptree/core.rs", "        if !self.header.is_written() {\n            let param = ValidationErrorKind::IndexNotWritten;\n            return Err(", "        if false {\n            let param = ValidationErrorKind::IndexNotWritten;\n            return Err(", ["C03"], "EQUIVALENT given the size + hash validation (fix ca281bb): a half-written index is shorter than its header says and is rejected anyway; a complete one with the bit clear holds correct content")
mut("c03_maxid_ignores_failed", "src/storage/core.rs", "                        max_blob_id = max_blob_id.max(Some(file_name.id()));", "                        let _ = file_name;", ["C07", "C06", "C11"], "max id ignores files that failed to open")
mut("c03_f5_revert", "src/blob/index/bptree/core.rs", "        if self.file.size() != expected_size {", "        if false && self.file.size() != expected_size {", ["C03"], "reverts fix F5")
mut("c03_f6_revert", "src/storage/core.rs", "let max_blob_id = max_blob_id.max(Self::max_old_corrupted_blob_id(&self.inner.config).await);", "", ["C03", "C07"], "reverts fix F6")
# ---- C06
mut("c06_eof_not_bincode", "src/error.rs", "        if self.kind() == IOErrorKind::UnexpectedEof {\n            Error::bincode(", "        if false && self.kind() == IOErrorKind::UnexpectedEof {\n            Error::bincode(", ["C06"], "EOF no longer classified as corruption: init fails on a torn blob")
mut("c06_validation_not_saved", "src/storage/core.rs", "                    !matches!(kind, ValidationErrorKind::BlobVersion)", "                    !matches!(kind, ValidationErrorKind::BlobVersion | ValidationErrorKind::RecordHeaderChecksum)", ["C06", "C07"], "a record header checksum error aborts init instead of quarantining the blob. Needs a damaged record header in a blob: MISSED while C06 only truncated files; CAUGHT since C06 judges init on zero-filled tails (a zero-filled tail behind an intact prefix of a header yields exactly that error)")
mut("c06_no_fresh_active", "src/storage/core.rs", "            if blobs.is_empty() {\n                let next = self.inner.next_blob_name()?;", "            if false {\n                let next = self.inner.next_blob_name()?;", ["C06"], "no fresh active blob when everything was quarantined")
mut("c06_index_written_first", "src/blob/index/bptree/core.rs", "        file.write_append_all(buf.freeze()).await?;\n        header.set_written(true);", "        header.set_written(true);\n        let mut buf = buf; { let mut h = BytesMut::with_capacity(128); serialize_into((&mut h).writer(), &header)?; buf[..h.len()].copy_from_slice(&h); }\n        file.write_append_all(buf.freeze()).await?;", ["C06", "C03"], "EQUIVALENT given the size validation (fix ca281bb): a torn index body is shorter than the header says")
mut("c06_torn_tail_accepted", "src/blob/core.rs", "        if record_end > self.file.size() {", "        if false && record_end > self.file.size() {", ["C06"], "reverts fix: torn data of last record accepted")
# ---- C07
mut("c07_create_truncates", "src/io/unix/sync.rs", "File::from_file(path, |f| f.create(true).write(true).read(true)).await", "File::from_file(path, |f| f.create(true).truncate(true).write(true).read(true)).await", ["C07"], "EQUIVALENT as long as no blob path is ever re-created (which C07 rule 3 and the id rules watch): create() is only used for new blob names and for index files that are rewritten as a whole")
mut("c07_quarantine_copy_delete", "src/storage/core.rs", """        tokio::fs::rename(&path, &corrupted_path)
            .await""", """        tokio::fs::copy(&path, &corrupted_path).await.map(|_| ()).and(tokio::fs::write(&path, b"").await).and(tokio::fs::remove_file(&path).await)""", ["C07"], "quarantine by copy + truncate + delete")
mut("c07_regen_rewrites_tail", "src/blob/core.rs", """        debug!("index successfully generated: {}", self.index.name());""", """        if self.index.count() == 3 { let _ = std::fs::OpenOptions::new().write(true).open(self.name.as_path()).and_then(|f| f.set_len(self.file.size() - 1)); }""", ["C07", "C03"], "index regeneration trims the last byte of a 3-record blob")
mut("c07_query_writes", "src/storage/core.rs", """    pub async fn records_count(&self) -> usize {
        self.inner.records_count().await""", """    pub async fn records_count(&self) -> usize {
        self.observer.try_dump_old_blob_indexes().await;
        self.inner.records_count().await""", ["C07"], "a counter query triggers index dumps (writes)")
# ---- C08
mut("c08_write_read_lock", "src/blob/core.rs", "        let blob = blob.upgradable_read().await;", "        let blob = blob.read().await;", ["C08", "C07"], "writers no longer serialised per blob: offsets are reserved atomically, so nothing overlaps (C08 holds), but records land below the end of stored bytes (C07 write-order rule)")
mut("c08_fetch_add_outside", "src/io/unix/sync.rs", """            Self::inplace_sync_call(move || {
                let offset = file_inner.size.fetch_add(len, Ordering::SeqCst);
                let (res, data) = c.create(offset);""", """            let offset = file_inner.size.load(Ordering::SeqCst);
            Self::inplace_sync_call(move || {
                file_inner.size.store(offset + len, Ordering::SeqCst);
                let (res, data) = c.create(offset);""", ["C08", "C14"], "offset reservation is load+store instead of fetch_add (in-place path)")
mut("c08_replace_loses_old", "src/storage/core.rs", """        if let Some(blob) = old_active {
            self.blobs.write().await.push(blob.into_inner()).await;
        }""", """        if let Some(blob) = old_active {
            let blob = blob.into_inner();
            if blob.records_count() % 7 != 3 { self.blobs.write().await.push(blob).await; }
        }""", ["C08", "C04"], "rotation forgets the old blob when its record count is 3 mod 7")
mut("c08_latest_wrong_under_rotation", "src/storage/core.rs", """        let blobs = safe.blobs.read().await;
        let mut stream = blobs
            .iter_possible_childs_rev(key)""", """        let blobs = safe.blobs.read().await;
        if blobs.len() == 2 && latest_entry.is_found() { return Ok(latest_entry); }
        let mut stream = blobs
            .iter_possible_childs_rev(key)""", ["C08", "C01"], "read stops at the active blob when exactly two closed blobs exist (stale reads / wrong ranking)")
mut("c08_f9_revert_partial", "src/storage/core.rs", """            (result, self.need_update_active_blob(blob).await?)
        };""", """            let need = self.need_update_active_blob(blob).await?;
            if need { self.observer.try_update_active_blob().await; }
            if self.inner.should_try_fsync(result.dirty_bytes) { self.observer.try_fsync_data().await; }
            (result, false)
        };""", ["C08"], "reverts the deadlock fix: hints sent under the storage lock")
# ---- C09
mut("c09_leaf_pack_eq", "src/blob/index/bptree/serializer.rs", "            if remainder < record_header_size {", "            if remainder <= record_header_size {", ["C09"], "EQUIVALENT: starts a new leaf one header early, still a valid tree")
mut("c09_leaf_pack", "src/blob/index/bptree/serializer.rs", "            if remainder < record_header_size {", "            if remainder + 1 < record_header_size {", ["C09"], "leaf packing off-by-one: a header may cross the 4 KiB block end")
mut("c09_go_right_le", "src/blob/index/bptree/core.rs", "        while offset + record_header_size < right_bound {", "        while offset + record_header_size <= right_bound {", ["C09"], "EQUIVALENT: last in-buffer header read from the buffer instead of the file")
mut("c09_leftmost_early", "src/blob/index/bptree/core.rs", "        while offset > 0 {\n            offset = offset.saturating_sub(record_header_size);", "        while offset > record_header_size {\n            offset = offset.saturating_sub(record_header_size);", ["C09", "C01"], "get_leftmost stops one early")
mut("c09_key_offset", "src/blob/index/bptree/node.rs", "            Ok(pos) => pos + 1,\n            Err(pos) => pos,\n        };\n        let offset = offsets_offset", "            Ok(pos) => pos,\n            Err(pos) => pos,\n        };\n        let offset = offsets_offset", ["C09"], "exact-key hit goes to the left child")
mut("c09_min_amount", "src/blob/index/bptree/serializer.rs", "        let min_amount = (max_amount - 1) / 2 + 1;", "        let min_amount = (max_amount - 1) / 2;", ["C09"], "EQUIVALENT: both layer passes use the same bounds")
mut("c09_grouping_inconsistent", "src/blob/index/bptree/serializer.rs", """            let amount = std::cmp::min(max_amount, nodes_arr.len() - current - min_amount);
            let nodes_portion = &nodes_arr[current..(current + amount)];
            current += amount;
            let compressed_node""", """            let amount = std::cmp::min(max_amount, nodes_arr.len() - current - min_amount - 1);
            let nodes_portion = &nodes_arr[current..(current + amount)];
            current += amount;
            let compressed_node""", ["C09"], "upper layer computed with a different grouping than the nodes written")
mut("c09_go_right_file_lt", "src/blob/index/bptree/core.rs", "        while offset + record_header_size <= leaves_end {", "        while offset + record_header_size < leaves_end {", ["C09"], "last header of the file never read by go_right_file")
# ---- C10
mut("c10_no_merge_parents", "src/filter/hierarchical.rs", """        while let Some(id) = parent {
            let node = self.get_mut(id);
            Self::add_filter_from_cow(&mut node.filter, &item_filter);
            parent = node.parent;
        }""", """        while let Some(id) = parent {
            let node = self.get_mut(id);
            parent = node.parent;
        }""", ["C10"], "new blob's filter not merged into the ancestors of its group")
mut("c10_bit_mod7", "src/filter/atomic_bitvec.rs", "        let mask = 1u8 << (bit_index % 8);", "        let mask = 1u8 << (bit_index % 7);", ["C10"])
mut("c10_range_lt", "src/filter/range.rs", "        self.initialized && &self.min <= key && key <= &self.max", "        self.initialized && &self.min < key && key <= &self.max", ["C10", "C01"])
mut("c10_bloom_offset", "src/blob/index/core.rs", "        let bloom_offset = size_of::<u64>() + range_buf.len();", "        let bloom_offset = range_buf.len();", ["C10"], "off-loaded probing reads 8 bytes early")
mut("c10_default_flip", "src/filter/mod.rs", "        Self::NeedAdditionalCheck\n    }\n}\n\nimpl Add", "        Self::NotContains\n    }\n}\n\nimpl Add", ["C10"])
# ---- C11
mut("c11_f4_revert", "src/blob/index/core.rs", """                    if let State::InMemory(headers) = &self.inner {
                        *headers.write().expect("rwlock") = data;
                    }
                    return Err(e);""", "                    drop(data);\n                    return Err(e);", ["C11"], "reverts fix F4 (failed dump drops headers)")
mut("c11_append_open", "src/io/unix/sync.rs", "File::from_file(path, |f| f.create(false).write(true).read(true)).await", "File::from_file(path, |f| f.create(false).append(true).read(true)).await", ["C11"], "reverts fix: O_APPEND open")
mut("c11_swallow_write_error", "src/io/unix/sync.rs", "                Self::write_data(&file_inner.std_file, offset, res)?;\n                Ok(data)\n            })\n        } else {", "                let _ = Self::write_data(&file_inner.std_file, offset, res);\n                Ok(data)\n            })\n        } else {", ["C11"], "write error swallowed on the in-place path: failed write acknowledged")
mut("c11_index_push_before_write", "src/blob/core.rs", """        let write_result = partially_serialized.write_to_file(&blob.file).await?;
        header.set_offset_checksum(write_result.blob_offset(), write_result.header_checksum());
        blob.index.push(key, header)?;""", """        let write_result = partially_serialized.write_to_file(&blob.file).await;
        if write_result.is_err() { let mut h2 = header.clone(); h2.set_offset_checksum(blob.file.size(), 0); let _ = blob.index.push(key, h2); }
        let write_result = write_result?;
        header.set_offset_checksum(write_result.blob_offset(), write_result.header_checksum());
        blob.index.push(key, header)?;""", ["C11"], "failed write still indexed (served later as if it had succeeded)")
mut("c11_dump_error_propagates", "src/storage/core.rs", """                if let Err(e) = blob.dump().await {
                    error!("Error dumping blob ({}): {}", blob.name(), e);
                } else {""", """                if let Err(e) = blob.dump().await {
                    error!("Error dumping blob ({}): {}", blob.name(), e);
                    return;
                } else {""", ["C11"], "EQUIVALENT-ish: dump loop stops at the first failing blob (later dumps retried next time)")
# ---- C12
mut("c12_no_header_sync", "src/blob/core.rs", "        self.file.write_append_all(buf.freeze()).await?;\n        self.file.fsyncdata().await?;", "        self.file.write_append_all(buf.freeze()).await?;", ["C12"])
mut("c12_no_dump_sync", "src/blob/core.rs", """            self.fsyncdata()
                .await
                .with_context(|| format!("blob file dump failed: {:?}", self.name.as_path()))?;
""", "", ["C12"], "index marked complete without syncing the blob")
mut("c12_no_close_sync", "src/storage/core.rs", """            if let Some(ablob) = safe.active_blob.as_ref() {
                ablob.read().await.fsyncdata().await?;
            }
""", "", ["C12"], "try_close_active_blob no longer syncs the blob")
mut("c12_should_try_ge", "src/storage/core.rs", "        dirty_bytes > self.config().max_dirty_bytes_before_sync()", "        dirty_bytes > self.config().max_dirty_bytes_before_sync() + 64", ["C12"], "threshold off by 64 bytes")
mut("c12_synced_post_size", "src/io/unix/sync.rs", "               file_inner.synced_size.fetch_max(size, Ordering::SeqCst);", "               file_inner.synced_size.fetch_max(size.saturating_sub(1), Ordering::SeqCst);", ["C12"], "one byte always considered dirty: limit 0 syncs forever but harmless? (dirty accounting)")
mut("c12_sync_counts_reserved", "src/io/unix/sync.rs", "        let size = self.inner.written_size();", "        let size = self.size();", ["C12"], "reverts fix: a sync accounts reserved-but-unwritten ranges as synced")
mut("c12_f7_revert", "src/storage/core.rs", "        self.inner.safe.read().await.fsyncdata().await\n    }", "        self.inner.fsyncdata().await\n    }", ["C12"], "reverts fix F7")
# ---- C13
mut("c13_lost_dump_request", "src/storage/observer_worker.rs", """                if !self.try_run_old_blob_indexes_dump_task().await {
                    // Dump task is already running and it can miss the blobs closed after its start.
                    // Request should not be lost, so repeat it later
                    self.defer_blob_indexes_dump().await?;
                }""", "                self.try_run_old_blob_indexes_dump_task().await;", ["C13"], "reverts fix: dump request dropped while a dump task runs")
mut("c13_break_on_error", "src/storage/observer_worker.rs", """                    error!("ObserverWorker error, request skipped: {:?}", err);""", """                    error!("ObserverWorker error, request skipped: {:?}", err); break;""", ["C13"], "worker loop ends (quietly) on the first failed request")
mut("c13_no_rotation_on_count", "src/storage/observer_worker.rs", """                if active_blob.file_size() < config_max_size
                    && (active_blob.records_count() as u64) < config_max_count
                {
                    return Ok(false);""", """                if active_blob.file_size() < config_max_size
                {
                    return Ok(false);""", ["C13"], "worker ignores the record limit")
mut("c13_shutdown_keeps_sender", "src/storage/observer.rs", "            std::mem::drop(sender); // Drop sender. That trigger ObserverWorker stopping", "            let _keep = sender.clone(); std::mem::drop(sender);", ["C13"], "close() never returns: a sender clone keeps the worker alive")
# ---- C14
mut("c14_fetch_add_hoisted", "src/io/unix/sync.rs", """            Self::background_sync_call(move || {
                let offset = file_inner.size.fetch_add(len, Ordering::SeqCst);
                let (res, data) = c.create(offset);""", """            let offset = file_inner.size.fetch_add(len, Ordering::SeqCst);
            tokio::task::yield_now().await;
            Self::background_sync_call(move || {
                let (res, data) = c.create(offset);""", ["C14"], "offset reserved before the await (the bug from the changelog): a cancelled write leaves a hole")
mut("c14_await_between_write_and_push", "src/blob/core.rs", """        header.set_offset_checksum(write_result.blob_offset(), write_result.header_checksum());
        blob.index.push(key, header)?;
        Ok(WriteResult { dirty_bytes: blob.file.dirty_bytes() })""", """        header.set_offset_checksum(write_result.blob_offset(), write_result.header_checksum());
        tokio::task::yield_now().await;
        blob.index.push(key, header)?;
        Ok(WriteResult { dirty_bytes: blob.file.dirty_bytes() })""", ["C14"], "extra suspension point between file write and index push (allowed: record un-indexed until restart)")
mut("c14_close_takes_blob_first", "src/storage/core.rs", """            if let Some(ablob) = safe.active_blob.as_ref() {
                ablob.read().await.fsyncdata().await?;
            }
            let blobs = safe.blobs.clone();
            let mut blobs = blobs.write().await;
            // always true
            if let Some(ablob) = safe.active_blob.take() {
                blobs.push((*ablob).into_inner()).await;
            }""", """            let blobs = safe.blobs.clone();
            if let Some(ablob) = safe.active_blob.take() {
                let ablob = (*ablob).into_inner();
                ablob.fsyncdata().await?;
                blobs.write().await.push(ablob).await;
            }""", ["C14", "C11"], "reverts fix: blob held by a local across the fsync await")
mut("c14_close_does_not_wait_creation", "src/storage/core.rs", "        let _ = self.inner.blob_creations.write().await;\n", "", ["C14"], "reverts fix: close() does not wait for a detached blob creation")
mut("c14_create_in_caller", "src/storage/core.rs", """            let blob = tokio::spawn(async move { Blob::open_new(next, iodriver, config).await })
                .await
                .map_err(|e| anyhow!("BLOB creation task failed: {}", e))??;""", "            let blob = Blob::open_new(next, iodriver, config).await?;", ["C14"], "reverts fix F10: blob creation cancellable")
mut("c12_no_recheck_after_sync", "src/storage/core.rs", """            if !still_dirty
                || self.fsync_in_progress""", """            if true || !still_dirty
                || self.fsync_in_progress""", ["C12"], "reverts fix: no re-check of dirty bytes after a background sync")
# ---- C15
mut("c15_count_from_keys", "src/blob/index/bptree/serializer.rs", "            let headers_len = self\n                .headers_btree\n                .iter()\n                .fold(0, |acc, (_k, v)| acc + v.len());", "            let headers_len = self\n                .headers_btree\n                .iter()\n                .fold(0, |acc, (_k, v)| acc + v.len().min(1));", ["C15", "C09"], "on-disk records_count from keys")
mut("c15_disk_used_no_active", "src/storage/core.rs", "            result += ablob.read().await.disk_used();", "            result += 0 * ablob.read().await.disk_used();", ["C15"])
mut("c15_blobs_count_slots", "src/filter/hierarchical.rs", "        self.children.iter().flatten().count()", "        self.children.len()", ["C15"], "reverts fix F3")
mut("c15_old_corrupted_counted_in_default_dir", "src/storage/core.rs", """            let mut corrupted_dir_path = work_dir_path.to_path_buf();
            corrupted_dir_path.push(config.corrupted_dir_name());""", """            let mut corrupted_dir_path = work_dir_path.to_path_buf();
            corrupted_dir_path.push("corrupted");""", ["C15", "C07"], "blobs quarantined earlier are counted in the default directory whatever Builder::corrupted_dir_name says")
mut("c07_max_corrupted_id_default_dir", "src/storage/core.rs", """        let mut corrupted_dir_path = config.work_dir()?.to_path_buf();
        corrupted_dir_path.push(config.corrupted_dir_name());""", """        let mut corrupted_dir_path = config.work_dir()?.to_path_buf();
        corrupted_dir_path.push("corrupted");""", ["C07", "C15", "C03"], "ids of quarantined blobs are looked up in the default directory only: reused when the quarantine directory has another name")
mut("c10_filter_offset_u16", "src/blob/index/bptree/core.rs", "        let fsize = header.meta_size as u64;", "        let fsize = header.meta_size as u16 as u64;", ["C03", "C10", "C01"], "OUTSIDE the properties (performance only): tree metadata located with the filter size truncated to 16 bits; for filters above 64 KiB (pearl's default bloom configuration) the index file then fails its size validation at start-up and is regenerated from the blob - every answer stays the same, which is what C03 demands of a disposable cache")
mut("c10_offloaded_byte_index_u16", "src/blob/index/bptree/core.rs", "            .read_exact_at_allocate(1, self.header.serialized_size() + i)", "            .read_exact_at_allocate(1, self.header.serialized_size() + (i as u16 as u64))", ["C10", "C04"], "an off-loaded bloom filter is probed at the byte index truncated to 16 bits: wrong only for filters above 64 KiB (pearl's default bloom configuration)")
mut("c11_enoent_write_acknowledged", "src/record/partially_serialized.rs", """            .map_err(|e| match e.kind() {
                kind if kind == IOErrorKind::Other || kind == IOErrorKind::NotFound => {
                    Error::file_unavailable(kind).into()
                }
                _ => e.into(),
            })""", """            .or_else(|e| match e.kind() {
                kind if kind == IOErrorKind::Other || kind == IOErrorKind::NotFound => {
                    Ok(PartiallySerializedWriteResult { blob_offset: 0, header_checksum: 0 })
                }
                _ => Err(e.into()),
            })""", ["C11"], "an append that fails with the one error kind pearl maps to 'file unavailable' (ENOENT / Other) is acknowledged")
mut("c16_validate_index_no_blob_size_zero", "src/tools/validation.rs", "        header.blob_size()\n    };", "        0\n    };", ["C16"], "validate_index of an index file without its blob compares against size 0")
mut("c06_unexpected_eof_classification_inverted", "src/error.rs", "            if io_error.kind() == IOErrorKind::UnexpectedEof {", "            if io_error.kind() != IOErrorKind::UnexpectedEof {", ["C06", "C03", "C11"], "EQUIVALENT (unreachable): operator mutant from tools/opmut.py in the `anyhow::Error` impl of into_bincode_if_unexpected_eof; its only caller (blob/index/core.rs: read_meta while loading filters from an index file) cannot see a read past the end because the index file size is validated first (coverage: lines never executed)")
# ---- C16
mut("c16_skip_off_by_header", "src/tools/blob_reader.rs", "            .checked_add(header.data_size())\n            .and_then(|x| x.checked_add(header.meta_size()))", "            .checked_add(header.data_size())", ["C16"], "skip_wrong_record_data forgets the meta size")
mut("c16_writer_no_revalidate", "src/tools/blob_writer.rs", "            let written_record = reader.read_single_record()?;\n            if record != &written_record {", "            let written_record = reader.read_single_record()?;\n            if false && record != &written_record {", ["C16"], "EQUIVALENT unless the writer is broken: written records not compared")
mut("c16_validate_index_no_hash", "src/blob/index/bptree/core.rs", "        if !Self::hash_valid(&self.header, buf)? {", "        if false && !Self::hash_valid(&self.header, buf)? {", ["C16"], "validate_index without the hash check")
mut("c16_f8_revert", "src/tools/blob_writer.rs", "        if record.header.blob_offset() != self.written {", "        if false && record.header.blob_offset() != self.written {", ["C16"], "reverts fix F8")
mut("c16_validate_skips_last", "src/tools/validation.rs", "    while !reader.is_eof() {\n        reader.read_record(false)?;\n    }\n    Ok(())", "    while !reader.is_eof() {\n        match reader.read_record(false) {\n            Err(_) if reader.is_eof() => break,\n            r => { r?; }\n        }\n    }\n    Ok(())", ["C16"], "validate_blob tolerates a damaged last record")
mut("c16_migrate_drops_markers", "src/tools/utils.rs", "            Ok(record) => {\n                writer.write_record(record)?;\n                count += 1;", "            Ok(record) => {\n                if !(source_version == 0 && record.header().is_deleted()) { writer.write_record(record)?; }\n                count += 1;", ["C16"], "v0->v1 migration drops deletion markers")
mut("c16_collector_counts_keys", "src/tools/collectors.rs", "    fn add_record(&mut self, record: Record) {\n        self.records += 1;", "    fn add_record(&mut self, record: Record) {\n        self.records = self.keys.len() + 1;", ["C16"], "BlobSummaryCollector counts unique keys instead of records")
# ---- C17
mut("c17_hasher_keys", "src/filter/bloom.rs", "AHasher::new_with_keys((i + 1) as u128, (i + 2) as u128)", "AHasher::new_with_keys((i + 2) as u128, (i + 3) as u128)", ["C17"], "self-consistent change of the bloom hash seeds")
mut("c17_block_size", "src/blob/index/bptree/core.rs", "pub(super) const BLOCK_SIZE: usize = 4096;", "pub(super) const BLOCK_SIZE: usize = 2048;", ["C17"], "block size 2048: the reader fetches one BLOCK_SIZE window per leaf, so the upper half of every 4096-byte leaf written by the pinned release is invisible. MISSED by the first corpus (every blob fitted into half a leaf) - I had wrongly labelled it equivalent; seed C17-block-size-2048 showed it. The corpus now has -big directories (multi-leaf, two-level indexes)")
mut("c17_record_field_order", "src/record/record.rs", "    flags: u8,\n    blob_offset: u64,\n    timestamp: u64,", "    blob_offset: u64,\n    flags: u8,\n    timestamp: u64,", ["C17"], "self-consistent change of the record header layout")
mut("c17_range_field_order", "src/filter/range.rs", """    #[serde(serialize_with = "serialize_key", deserialize_with = "deserialize_key")]
    min: K,
    #[serde(serialize_with = "serialize_key", deserialize_with = "deserialize_key")]
    max: K,""", """    #[serde(serialize_with = "serialize_key", deserialize_with = "deserialize_key")]
    max: K,
    #[serde(serialize_with = "serialize_key", deserialize_with = "deserialize_key")]
    min: K,""", ["C17"], "self-consistent change of the range filter layout")
mut("c17_blob_version_unchecked", "src/blob/header.rs", "        if self.version != BLOB_VERSION {", "        if false && self.version != BLOB_VERSION {", ["C17"], "blob format version no longer validated")
mut("c17_bit_order", "src/filter/atomic_bitvec.rs", "        let mask = 1u64 << (bit_index % Self::ITEM_BITS_SIZE);", "        let mask = 1u64 << (63 - bit_index % Self::ITEM_BITS_SIZE);", ["C17", "C10"], "bit order inside the 64-bit words reversed (in-memory only: off-loaded probing disagrees)")
mut("c17_hash_two_byte_keys", "src/filter/ahash/operations.rs", "    if data.len() >= 2 {", "    if data.len() > 2 {", ["C17", "C10"], "operator mutant (tools/opmut.py): the bloom hash of 2-byte keys changes (self-consistent, so no false negative inside one build; files of the pinned release would be probed at other bits). The corpus directories have 4/8/16/32-byte keys only; the bloom vectors cover every length")
mut("c08_force_update_creates_outside_lock", "src/storage/observer_worker.rs", "    let mut safe = inner.safe().write().await;\n    let new_active = get_new_active_blob(inner).await?;\n    safe.replace_active_blob(new_active).await?;\n", "    let new_active = get_new_active_blob(inner).await?;\n    inner.safe().write().await.replace_active_blob(new_active).await?;\n", ["C08"], "reverts fix 90e63b1: the forced update creates its blob before taking the storage lock (closed blobs out of id order, tied records ranked differently after a restart)")
# ---- fixes reverted (monitors must still fire)
mut("f1_worker_panic", "src/storage/observer_worker.rs", """                    error!("ObserverWorker error, request skipped: {:?}", err);""", """                    panic!("ObserverWorker unexpected error: {:?}", err);""", ["C13", "C04"], "reverts fix F1")
mut("f2_restore_no_load", "src/storage/core.rs", """                if let Err(e) = blob.load_index().await {
                    safe.blobs.write().await.push(blob).await;
                    return Err(e);
                }""", "", ["C04"], "reverts fix F2")

def sh(cmd, **kw):
    return subprocess.run(cmd, shell=True, text=True, capture_output=True, **kw)

def run(names, slot, tier, only_checks=None):
    wt = f"/tmp/pv-mut-{slot}"
    sh(f"git -C /repo worktree remove --force {wt}")
    shutil.rmtree(wt, ignore_errors=True)
    r = sh(f"git -C /repo worktree add --detach {wt} HEAD")
    if r.returncode != 0:
        print(r.stderr); sys.exit(2)
    results = {}
    try:
        for name in names:
            m = M[name]
            p = os.path.join(wt, m["file"])
            src = open(p).read()
            if m["old"] not in src:
                print(f"{name}: pattern not found in {m['file']}")
                results[name] = {"error": "pattern not found"}
                continue
            open(p, "w").write(src.replace(m["old"], m["new"], 1))
            res = {}
            for c in (only_checks or m["checks"]):
                env = dict(os.environ, VERIF_REPO=wt)
                r = subprocess.run(["/verif/check", c, tier], text=True, capture_output=True, env=env)
                sig = [l.strip() for l in r.stdout.splitlines() if l.strip().startswith("signature:")]
                verdict = {0: "MISSED", 1: "CAUGHT", 2: "INCONCLUSIVE"}.get(r.returncode, str(r.returncode))
                res[c] = verdict
                print(f"{name:28s} {c} {verdict} {sig[:2]}", flush=True)
                if r.returncode == 2:
                    print(r.stdout[-1500:])
            results[name] = res
            open(p, "w").write(src)
    finally:
        sh(f"git -C /repo worktree remove --force {wt}")
        shutil.rmtree(wt, ignore_errors=True)
        tag = hashlib.md5(wt.encode()).hexdigest()[:10]
        shutil.rmtree(f"/tmp/pv-shadow-{tag}", ignore_errors=True)
    return results

if __name__ == "__main__":
    args = sys.argv[1:]
    slot, tier, only = 0, "quick", None
    while args and args[0].startswith("--"):
        if args[0] == "--slot": slot = int(args[1]); args = args[2:]
        elif args[0] == "--tier": tier = args[1]; args = args[2:]
        elif args[0] == "--checks": only = args[1].split(","); args = args[2:]
        elif args[0] == "--list":
            for k, v in M.items(): print(k, v["checks"], v["note"])
            sys.exit(0)
        elif args[0] == "--all": args = [",".join(M.keys())]
        elif args[0] == "--prefix": args = [",".join(k for k in M if k.startswith(args[1]))]
        else: break
    names = args[0].split(",") if args else []
    res = run(names, slot, tier, only)
    print(json.dumps(res))
    # persist (merge) the verdicts
    path = "/verif/mutation_results.json"
    try:
        allr = json.load(open(path))
    except Exception:
        allr = {}
    for k, v in res.items():
        if isinstance(v, dict) and "error" not in v:
            e = allr.setdefault(k, {"checks": {}, "note": M[k]["note"], "file": M[k]["file"]})
            e["note"] = M[k]["note"]
            for c, verdict in v.items():
                if verdict != "INCONCLUSIVE" or c not in e["checks"]:
                    e["checks"][c] = verdict
    json.dump(allr, open(path, "w"), indent=1, sort_keys=True)
