#!/usr/bin/env python3
"""Systematic operator mutants: every spaced binary comparison / boolean operator (and `+ 1` / `- 1`) in pearl's src
(outside verif.rs, test modules, comments) is a mutation site. A sample of the sites is applied one by one to a scratch
worktree; mutants that fail to build or are killed by the 76-test suite are dropped, the survivors are run against the
quick checks mapped to their file. Usage: opmut.py enumerate | run <slot> <n_slots> <sample_size> <seed> | report"""
import re, sys, os, json, random, subprocess, shutil, hashlib, time

REPO = "/repo"
OUT = "/verif/opmut_results.json"
OPS = [(" <= ", " < "), (" >= ", " > "), (" < ", " <= "), (" > ", " >= "), (" == ", " != "), (" != ", " == "), (" && ", " || "), (" || ", " && "), (" + 1", " + 0"), (" - 1", " - 0")]
MAP = [
    ("src/blob/index/bptree/", ["C09", "C02", "C03"]),
    ("src/blob/index/", ["C09", "C03", "C02", "C15"]),
    ("src/blob/", ["C03", "C05", "C06", "C02"]),
    ("src/filter/", ["C10", "C01"]),
    ("src/io/", ["C12", "C11", "C05"]),
    ("src/record/", ["C05", "C16", "C03"]),
    ("src/storage/observer", ["C13", "C04"]),
    ("src/storage/", ["C01", "C02", "C04", "C15", "C13"]),
    ("src/tools/", ["C16"]),
    ("src/", ["C01", "C04"]),
]

def sites():
    res = []
    for root, _, files in os.walk(os.path.join(REPO, "src")):
        for f in sorted(files):
            if not f.endswith(".rs"): continue
            p = os.path.join(root, f)
            rel = os.path.relpath(p, REPO)
            if rel == "src/verif.rs" or "/windows/" in rel or rel.endswith("iouring.rs") or rel.startswith("src/benchmark/") or rel.endswith("benchmarks.rs") or rel.endswith("/tests.rs") or rel.endswith("index/simple.rs"): continue  # simple.rs: dead code (only named in a commented-out benchmark line)
            lines = open(p, newline="").read().split("\n")
            in_test = False
            for i, line in enumerate(lines):
                s = line.strip()
                if s.startswith("#[cfg(test)]"): in_test = True
                if in_test: continue
                if s.startswith("//") or s.startswith("///") or "cfg(feature = \"verif\")" in s or "debug!" in s or "trace!" in s or "info!" in s or "warn!" in s or "error!" in s or "assert" in s:
                    continue
                code = line.split("//")[0]
                for old, new in OPS:
                    start = 0
                    while True:
                        j = code.find(old, start)
                        if j < 0: break
                        start = j + len(old)
                        # skip generics / closures / match arms / shifts
                        ctx = code[max(0, j - 2): j + len(old) + 2]
                        if "=>" in ctx or "->" in ctx or "<<" in ctx or ">>" in ctx or "<-" in ctx: continue
                        if old in (" < ", " > ") and re.search(r"(where|impl|fn|for<|: )\s*$", code[:j]): continue
                        res.append({"file": rel, "line": i + 1, "col": j, "old": old, "new": new})
    return res

def sh(cmd, cwd=None, timeout=3600, env=None):
    e = dict(os.environ, CARGO_NET_OFFLINE="true")
    if env: e.update(env)
    r = subprocess.run(["bash", "-c", cmd], cwd=cwd, env=e, text=True, capture_output=True, timeout=timeout)
    return r.returncode, r.stdout + r.stderr

def checks_for(rel):
    for pre, cs in MAP:
        if rel.startswith(pre): return cs
    return ["C01"]

def run(slot, n_slots, sample, seed):
    all_sites = sites()
    rnd = random.Random(seed)
    rnd.shuffle(all_sites)
    mine = [s for k, s in enumerate(all_sites[:sample]) if k % n_slots == slot]
    wt = f"/tmp/opmut-{slot}"
    sh(f"git -C {REPO} worktree remove --force {wt}"); shutil.rmtree(wt, ignore_errors=True)
    rc, out = sh(f"git -C {REPO} worktree add --detach {wt} HEAD"); assert rc == 0, out
    tmpd = f"/tmp/opmut-tmp-{slot}"; os.makedirs(tmpd, exist_ok=True)
    done = set()
    for f in os.listdir("/tmp"):
        if f.startswith("opmut-") and f.endswith(".jsonl"):
            for l in open(os.path.join("/tmp", f)):
                if l.strip():
                    r = json.loads(l); done.add((r["file"], r["line"], r["col"], r["old"]))
    mine = [s for s in mine if (s["file"], s["line"], s["col"], s["old"]) not in done]
    log = open(f"/tmp/opmut-{slot}.jsonl", "a")
    try:
        for s in mine:
            p = os.path.join(wt, s["file"])
            src = open(p, newline="").read()
            lines = src.split("\n")
            L = lines[s["line"] - 1]
            if L[s["col"]: s["col"] + len(s["old"])] != s["old"]:
                continue
            lines[s["line"] - 1] = L[:s["col"]] + s["new"] + L[s["col"] + len(s["old"]):]
            open(p, "w", newline="").write("\n".join(lines))
            rec = dict(s); rec["text"] = L.strip()[:160]
            t0 = time.time()
            # a mutant that makes a test hang is killed by the suite as well (timeout -k: the whole process group)
            rc, out = sh("timeout -k 5 420 cargo test --workspace --no-fail-fast --offline 2>&1 | grep -E '^test result|FAILED|^error' | head -20; echo RC=${PIPESTATUS[0]}", cwd=wt, env={"TMPDIR": tmpd}, timeout=900)
            if "RC=124" in out or "RC=137" in out:
                out += "\nFAILED (timeout)"
                sh("pkill -9 -f '" + wt + "/target' || true")
            ok = out.count("test result: ok") >= 3 and "FAILED" not in out and "\nerror" not in ("\n" + out)
            if "error" in out and "test result" not in out:
                rec["suite"] = "build-failed"
            elif not ok:
                rec["suite"] = "killed"
            else:
                rec["suite"] = "survived"
                rec["checks"] = {}
                for c in checks_for(s["file"]):
                    r = subprocess.run(["/verif/check", c, "quick"], text=True, capture_output=True, env=dict(os.environ, VERIF_REPO=wt))
                    sig = [l.strip() for l in r.stdout.splitlines() if l.strip().startswith("signature:")][:2]
                    v = {0: "MISSED", 1: "CAUGHT", 2: "INCONCLUSIVE"}.get(r.returncode, str(r.returncode))
                    rec["checks"][c] = v
                    if v == "CAUGHT":
                        rec["signature"] = sig[:1]
                        break
            rec["secs"] = round(time.time() - t0)
            log.write(json.dumps(rec) + "\n"); log.flush()
            open(p, "w", newline="").write(src)
    finally:
        sh(f"git -C {REPO} worktree remove --force {wt}"); shutil.rmtree(wt, ignore_errors=True)
        tag = hashlib.md5(wt.encode()).hexdigest()[:10]
        shutil.rmtree(f"/tmp/pv-shadow-{tag}", ignore_errors=True)
        shutil.rmtree(tmpd, ignore_errors=True)

def report():
    recs = []
    for f in sorted(os.listdir("/tmp")):
        if f.startswith("opmut-") and f.endswith(".jsonl"):
            recs += [json.loads(l) for l in open(os.path.join("/tmp", f)) if l.strip()]
    json.dump(recs, open(OUT, "w"), indent=1)
    n = len(recs); killed = sum(r["suite"] == "killed" for r in recs); bf = sum(r["suite"] == "build-failed" for r in recs)
    surv = [r for r in recs if r["suite"] == "survived"]
    caught = [r for r in surv if "CAUGHT" in r.get("checks", {}).values()]
    print(f"{n} mutants: {bf} did not build, {killed} killed by the suite, {len(surv)} survived the suite; of those {len(caught)} caught by a check, {len(surv) - len(caught)} not")
    for r in surv:
        if r not in caught:
            print(f"  NOT CAUGHT {r['file']}:{r['line']} `{r['old'].strip()}` -> `{r['new'].strip()}`  {r['text'][:110]}  {r.get('checks')}")

if __name__ == "__main__":
    if sys.argv[1] == "enumerate":
        s = sites(); print(len(s))
        from collections import Counter
        print(Counter(x["file"] for x in s).most_common(40))
    elif sys.argv[1] == "run":
        run(int(sys.argv[2]), int(sys.argv[3]), int(sys.argv[4]), int(sys.argv[5]))
    else:
        report()
