#!/usr/bin/env python3
"""Systematic operator mutants: every spaced binary comparison / boolean operator (and `+ 1` / `- 1`) in pearl's src
(outside verif.rs, test modules, comments) is a mutation site. A sample of the sites is applied one by one to a scratch
worktree; mutants that fail to build or are killed by the 76-test suite are dropped, the survivors are run against the
quick checks mapped to their file. Usage: opmut.py enumerate | run <slot> <n_slots> <sample_size> <seed> | report"""
import re, sys, os, json, random, subprocess, shutil, hashlib, time

REPO = "/repo"
OUT = "/verif/opmut_results.json"
OPS = [(" <= ", " < "), (" >= ", " > "), (" < ", " <= "), (" > ", " >= "), (" == ", " != "), (" != ", " == "), (" && ", " || "), (" || ", " && "), (" + 1", " + 0"), (" - 1", " - 0")]
MAP = [
    ("src/blob/index/bptree/", ["C09", "C02", "C03"]),
    ("src/blob/index/", ["C09", "C03", "C02", "C15"]),
    ("src/blob/", ["C03", "C05", "C06", "C02"]),
    ("src/filter/", ["C10", "C01"]),
    ("src/io/", ["C12", "C11", "C05"]),
    ("src/record/", ["C05", "C16", "C03"]),
    ("src/storage/observer", ["C13", "C04"]),
    ("src/storage/", ["C01", "C02", "C04", "C15", "C13"]),
    ("src/tools/", ["C16"]),
    ("src/", ["C01", "C04"]),
]

def sites():
    res = []
    for root, _, files in os.walk(os.path.join(REPO, "src")):
        for f in sorted(files):
            if not f.endswith(".rs"): continue
            p = os.path.join(root, f)
            rel = os.path.relpath(p, REPO)
            if rel == "src/verif.rs" or "/windows/" in rel or rel.endswith("iouring.rs") or rel.startswith("src/benchmark/") or rel.endswith("benchmarks.rs") or rel.endswith("/tests.rs") or rel.endswith("index/simple.rs"): continue  # simple.rs: dead code (only named in a commented-out benchmark line)
            lines = open(p, newline="").read().split("\n")
            in_test = False
            for i, line in enumerate(lines):
                s = line.strip()
                if s.startswith("#[cfg(test)]"): in_test = True
                if in_test: continue
                if s.startswith("//") or s.startswith("///") or "cfg(feature = \"verif\")" in s or "debug!" in s or "trace!" in s or "info!" in s or "warn!" in s or "error!" in s or "assert" in s:
                    continue
                code = line.split("//")[0]
                for old, new in OPS:
                    start = 0
                    while True:
                        j = code.find(old, start)
                        if j < 0: break
                        start = j + len(old)
                        # skip generics / closures / match arms / shifts
                        ctx = code[max(0, j - 2): j + len(old) + 2]
                        if "=>" in ctx or "->" in ctx or "<<" in ctx or ">>" in ctx or "<-" in ctx: continue
                        if old in (" < ", " > ") and re.search(r"(where|impl|fn|for<|: )\s*$", code[:j]): continue
                        res.append({"file": rel, "line": i + 1, "col": j, "old": old, "new": new})
    return res

def sh(cmd, cwd=None, timeout=3600, env=None):
    e = dict(os.environ, CARGO_NET_OFFLINE="true")
    if env: e.update(env)
    r = subprocess.run(["bash", "-c", cmd], cwd=cwd, env=e, text=True, capture_output=True, timeout=timeout)
    return r.returncode, r.stdout + r.stderr

def checks_for(rel):
    for pre, cs in MAP:
        if rel.startswith(pre): return cs
    return ["C01"]

def run(slot, n_slots, sample, seed):
    all_sites = sites()
    rnd = random.Random(seed)
    rnd.shuffle(all_sites)
    mine = [s for k, s in enumerate(all_sites[:sample]) if k % n_slots == slot]
    wt = f"/tmp/opmut-{slot}"
    sh(f"git -C {REPO} worktree remove --force {wt}"); shutil.rmtree(wt, ignore_errors=True)
    rc, out = sh(f"git -C {REPO} worktree add --detach {wt} HEAD"); assert rc == 0, out
    tmpd = f"/tmp/opmut-tmp-{slot}"; os.makedirs(tmpd, exist_ok=True)
    done = set()
    for f in os.listdir("/tmp"):
        if f.startswith("opmut-") and f.endswith(".jsonl"):
            for l in open(os.path.join("/tmp", f)):
                if l.strip():
                    r = json.loads(l); done.add((r["file"], r["line"], r["col"], r["old"]))
    mine = [s for s in mine if (s["file"], s["line"], s["col"], s["old"]) not in done]
    log = open(f"/tmp/opmut-{slot}.jsonl", "a")
    try:
        for s in mine:
            p = os.path.join(wt, s["file"])
            src = open(p, newline="").read()
            lines = src.split("\n")
            L = lines[s["line"] - 1]
            if L[s["col"]: s["col"] + len(s["old"])] != s["old"]:
                continue
            lines[s["line"] - 1] = L[:s["col"]] + s["new"] + L[s["col"] + len(s["old"]):]
            open(p, "w", newline="").write("\n".join(lines))
            rec = dict(s); rec["text"] = L.strip()[:160]
            t0 = time.time()
            # a mutant that makes a test hang is killed by the suite as well (timeout -k: the whole process group)
            rc, out = sh("timeout -k 5 420 cargo test --workspace --no-fail-fast --offline 2>&1 | grep -E '^test result|FAILED|^error' | head -20; echo RC=${PIPESTATUS[0]}", cwd=wt, env={"TMPDIR": tmpd}, timeout=900)
            if "RC=124" in out or "RC=137" in out:
                out += "\nFAILED (timeout)"
                sh("pkill -9 -f '" + wt + "/target' || true")
            ok = out.count("test result: ok") >= 3 and "FAILED" not in out and "\nerror" not in ("\n" + out)
            if "error" in out and "test result" not in out:
                rec["suite"] = "build-failed"
            elif not ok:
                rec["suite"] = "killed"
            else:
                rec["suite"] = "survived"
                rec["checks"] = {}
                for c in checks_for(s["file"]):
                    r = subprocess.run(["/verif/check", c, "quick"], text=True, capture_output=True, env=dict(os.environ, VERIF_REPO=wt))
                    sig = [l.strip() for l in r.stdout.splitlines() if l.strip().startswith("signature:")][:2]
                    v = {0: "MISSED", 1: "CAUGHT", 2: "INCONCLUSIVE"}.get(r.returncode, str(r.returncode))
                    rec["checks"][c] = v
                    if v == "CAUGHT":
                        rec["signature"] = sig[:1]
                        break
            rec["secs"] = round(time.time() - t0)
            log.write(json.dumps(rec) + "\n"); log.flush()
            open(p, "w", newline="").write(src)
    finally:
        sh(f"git -C {REPO} worktree remove --force {wt}"); shutil.rmtree(wt, ignore_errors=True)
        tag = hashlib.md5(wt.encode()).hexdigest()[:10]
        shutil.rmtree(f"/tmp/pv-shadow-{tag}", ignore_errors=True)
        shutil.rmtree(tmpd, ignore_errors=True)

# Triage of the mutants that survived the suite and were not caught by the checks opmut ran against them
# (key: "file:line old -> new"). Classes: EQUIVALENT (no observable difference), STRUCTURE (another but valid on-disk
# or in-memory structure, every answer the same), PERFORMANCE/TIMING (more or less work, a boundary millisecond),
# OUTSIDE (observable, but not something the 17 properties speak about), DEAD (code never executed in production),
# HOOK (inside a cfg(feature = "verif") hook), REMAPPED (opmut ran the wrong checks: caught by the check named).
TRIAGE = {
    "src/record/partially_serialized.rs:55": "OUTSIDE: which error kind a failed append is reported as (FileUnavailable or the raw io::Error); every property only asks that it is an error",
    "src/storage/core.rs:1389": "EQUIVALENT for C12: a sync is requested when the dirty bytes reach the limit instead of exceeding it (syncing earlier is allowed)",
    "src/filter/range.rs:127": "EQUIVALENT: min = key when key == min", "src/filter/range.rs:129": "EQUIVALENT: max = key when key == max",
    "src/filter/range.rs:142": "EQUIVALENT: assigning an equal bound", "src/filter/range.rs:145": "EQUIVALENT: assigning an equal bound",
    "src/tools/utils.rs:102": "OUTSIDE: on which record counts the recovery tool re-reads what it wrote (a self-check of the tool; C16 judges the output itself)",
    "src/tools/utils.rs:76": "REMAPPED: caught by C16 once a panic raised in pearl's sources outside a monitored call is reported (it aborted the shards: remainder by zero); see runner.rs",
    "src/filter/bloom.rs:220": "DEAD: bits_count_via_iterations is unused (#[allow(dead_code)])", "src/filter/bloom.rs:222": "DEAD: bits_count_via_iterations is unused",
    "src/blob/index/bptree/core.rs:146": "EQUIVALENT: reversing a one-element list", "src/blob/index/bptree/core.rs:338": "EQUIVALENT: a one-element list handled by the general branch",
    "src/error.rs:218": "EQUIVALENT (unreachable): see mutant c06_unexpected_eof_classification_inverted",
    "src/storage/core.rs:496": "EQUIVALENT: re-sorting the already ordered list of a single blob", "src/storage/core.rs:474": "EQUIVALENT: an empty entry list counted as an affected blob only triggers that re-sort", "src/storage/core.rs:487": "EQUIVALENT: as core.rs:474",
    "src/storage/core.rs:473": "EQUIVALENT: the flag only decides whether the (idempotent) cut after the first marker runs; with && it is never set and the list is already cut per blob... checked by C02 on every step",
    "src/filter/hierarchical.rs:303": "STRUCTURE: groups of group_size + 1 children; no filter answer changes", "src/filter/hierarchical.rs:280": "STRUCTURE: as hierarchical.rs:303",
    "src/filter/hierarchical.rs:168": "PERFORMANCE: one more filter off-loaded", "src/filter/hierarchical.rs:189": "PERFORMANCE: one more filter off-loaded", "src/filter/hierarchical.rs:173": "PERFORMANCE: off-loading stops one level earlier",
    "src/record/record.rs:231": "DEAD: Header::has_key is never called", "src/record/record.rs:126": "EQUIVALENT: one byte more or less goes through the single buffer",
    "src/storage/builder.rs:116": "OUTSIDE: Builder accepts max_data_in_blob = 0", "src/storage/builder.rs:104": "OUTSIDE: Builder accepts max_blob_size = 0", "src/storage/builder.rs:60": "OUTSIDE: boundary of the builder's argument validation",
    "src/filter/bloom.rs:266": "EQUIVALENT in use: differs only when a filter is merged with itself", "src/filter/bloom.rs:270": "EQUIVALENT in use: as bloom.rs:266",
    "src/filter/bloom.rs:174": "OUTSIDE (sizing only): a filter is built with the first configuration seen in the process instead of its own; it is self-consistent, saved with the configuration it really has, and gives no false negative",
    "src/blob/index/bptree/serializer.rs:214": "STRUCTURE: fan-out smaller by one", "src/blob/index/bptree/serializer.rs:155": "STRUCTURE: another grouping of the last nodes of a layer", "src/blob/index/bptree/serializer.rs:109": "STRUCTURE: padding decision at an exact fit",
    "src/blob/index/bptree/core.rs:107": "EQUIVALENT in use: the caller never asks for the byte at index == meta_size", "src/blob/index/bptree/core.rs:362": "EQUIVALENT: loop bound at an exact fit reads the same headers",
    "src/storage/core.rs:384": "TIMING: rotation debounce boundary (one millisecond)", "src/storage/observer_worker.rs:233": "TIMING: deferred dump fires at min-since-last AND/OR max-since-first; always within the maximum", "src/storage/observer_worker.rs:126": "EQUIVALENT: replacing a deadline by an equal one",
    "src/storage/core.rs:375": "EQUIVALENT for C13: rotation when the size exceeds instead of reaches the limit (the property says 'beyond')", "src/storage/observer_worker.rs:328": "EQUIVALENT for C13: as core.rs:375", "src/storage/observer_worker.rs:316": "EQUIVALENT for C13: as core.rs:375",
    "src/io/unix/sync.rs:302": "EQUIVALENT: an operation of exactly the threshold size runs in the background instead of in place", "src/io/unix/sync.rs:89": "EQUIVALENT: zero-length appends tracked as in flight",
    "src/blob/index/tools.rs:18": "HOOK: inside the verif tap call", "src/storage/observer_worker.rs:194": "HOOK: verif_barrier",
    "src/storage/core.rs:1482": "TIMING: dump time-slice check for the first blob of a slice", "src/storage/core.rs:1385": "EQUIVALENT for C12: a sync is also requested while one is in progress (the worker ignores it)",
    "src/storage/core.rs:1107": "PERFORMANCE: a deferred dump is requested after every delete", "src/storage/core.rs:742": "EQUIVALENT: fetch_max with a smaller value is a no-op here (the counter was already raised from the blob list)",
    "src/storage/core.rs:1075": "PERFORMANCE: the delete takes the exclusive lock where the shared one suffices",
    "src/storage/read_result.rs:124": "DEAD: ReadResult<BlobRecordTimestamp>::latest is never called",
    "src/filter/ahash/operations.rs:34": "EQUIVALENT: keys are never empty", "src/filter/ahash/fallback_hash.rs:167": "EQUIVALENT: for 16 bytes both branches hash the same 16 bytes",
    "src/filter/ahash/operations.rs:25": "REMAPPED: caught by C17 (bloom vectors; mutant c17_hash_two_byte_keys)", "src/filter/ahash/operations.rs:26": "REMAPPED: caught by C17 (corpus with 4-byte keys, bloom vectors)",
    "src/filter/ahash/fallback_hash.rs:166": "REMAPPED: caught by C17 (8-byte keys)", "src/filter/ahash/fallback_hash.rs:170": "REMAPPED: caught by C17 (keys longer than 16 bytes)",
    "src/tools/blob_reader.rs:110": "EQUIVALENT: is_eof at position == len is decided by the read that follows", "src/blob/index/header.rs:113": "EQUIVALENT: both branches leave a zeroed 32-byte hash",
    "src/blob/index/core.rs:393": "EQUIVALENT: a one-element list", "src/blob/index/core.rs:382": "DEAD: IndexStruct::get_all is never called", "src/blob/index/core.rs:352": "EQUIVALENT: linear or binary insertion at exactly four versions",
    "src/filter/atomic_bitvec.rs:112": "EQUIVALENT in use: the previous bit value returned by set() is ignored by every caller",
}

def report():
    recs = []
    for f in sorted(os.listdir("/tmp")):
        if f.startswith("opmut-") and f.endswith(".jsonl"):
            recs += [json.loads(l) for l in open(os.path.join("/tmp", f)) if l.strip()]
    n = len(recs); killed = sum(r["suite"] == "killed" for r in recs); bf = sum(r["suite"] == "build-failed" for r in recs)
    surv = [r for r in recs if r["suite"] == "survived"]
    caught = [r for r in surv if "CAUGHT" in r.get("checks", {}).values()]
    print(f"{n} mutants: {bf} did not build, {killed} killed by the suite, {len(surv)} survived the suite; of those {len(caught)} caught by a check, {len(surv) - len(caught)} not")
    untriaged = 0
    for r in surv:
        if r not in caught:
            t = TRIAGE.get(f"{r['file']}:{r['line']}")
            r["triage"] = t or "UNTRIAGED"
            if not t:
                untriaged += 1
                print(f"  UNTRIAGED {r['file']}:{r['line']} `{r['old'].strip()}` -> `{r['new'].strip()}`  {r['text'][:110]}  {r.get('checks')}")
    from collections import Counter
    cls = Counter((r.get("triage") or "").split(":")[0].split(" ")[0] for r in surv if r not in caught)
    print("triage of the rest:", dict(cls), "untriaged:", untriaged)
    json.dump(recs, open(OUT, "w"), indent=1)

if __name__ == "__main__":
    if sys.argv[1] == "enumerate":
        s = sites(); print(len(s))
        from collections import Counter
        print(Counter(x["file"] for x in s).most_common(40))
    elif sys.argv[1] == "run":
        run(int(sys.argv[2]), int(sys.argv[3]), int(sys.argv[4]), int(sys.argv[5]))
    else:
        report()
