#!/usr/bin/env python3
"""Offline checker over `strace -f -y -s 0` output for C07 (hook-independent view).
usage: strace_c07.py <strace.out> <work dir>   -> prints one JSON line {syscalls, blob_writes, renames, violations:[...]}
Harness-own file manipulations are bracketed, per thread, by a 7-byte and a 9-byte write to /dev/null."""
import re, sys, json

def main():
    path, work = sys.argv[1], sys.argv[2].rstrip('/')
    end = {}            # blob path -> end of stored bytes (None = unknown baseline)
    existing = set()    # paths known to exist (targets of renames, created files)
    in_harness = {}     # tid -> bool
    stats = {"syscalls": 0, "blob_writes": 0, "blob_opens": 0, "renames": 0, "unlinks": 0, "harness_sections": 0}
    viol = []
    call = re.compile(r'^(\d+)\s+(\w+)\((.*)$')
    fdpath = re.compile(r'^(\d+)<([^>]*)>')
    def is_blob(p): return p.startswith(work) and p.endswith('.blob')
    def quarantined(p): return '/corrupted/' in p
    for line in open(path, errors='replace'):
        m = call.match(line)
        if not m: continue
        tid, name, rest = m.group(1), m.group(2), m.group(3)
        failed = re.search(r'\)\s+=\s+-1 ', rest) is not None
        stats["syscalls"] += 1
        if name == 'write':
            fm = fdpath.match(rest)
            if fm and fm.group(2) == '/dev/null':
                lm = re.search(r',\s*(\d+)\)\s*(=|<unfinished)', rest)
                if lm:
                    n = int(lm.group(1))
                    if n == 7:
                        in_harness[tid] = True; stats["harness_sections"] += 1
                    elif n == 9:
                        in_harness[tid] = False
                continue
        harness = in_harness.get(tid, False)
        if failed: continue
        if name == 'openat':
            pm = re.search(r'"([^"]*)",\s*([A-Z_|0-9]+)', rest)
            if not pm: continue
            p, flags = pm.group(1), pm.group(2)
            if not is_blob(p): continue
            stats["blob_opens"] += 1
            if harness:
                end[p] = None; existing.add(p); continue
            if 'O_TRUNC' in flags:
                viol.append({"rule": "open-with-O_TRUNC", "path": p, "line": line.strip()[:200]})
            if quarantined(p) and ('O_WRONLY' in flags or 'O_RDWR' in flags):
                viol.append({"rule": "quarantined-file-opened-for-writing", "path": p, "line": line.strip()[:200]})
            if 'O_CREAT' in flags and p not in existing:
                end.setdefault(p, 0)
            existing.add(p)
        elif name in ('pwrite64', 'write'):
            fm = fdpath.match(rest)
            if not fm or not is_blob(fm.group(2)): continue
            p = fm.group(2)
            if harness:
                end[p] = None; continue
            if name == 'write':
                viol.append({"rule": "non-positional-write-to-blob", "path": p, "line": line.strip()[:200]}); continue
            am = re.search(r',\s*(\d+),\s*(\d+)(\)| <unfinished)', rest)
            if not am: continue
            ln, off = int(am.group(1)), int(am.group(2))
            stats["blob_writes"] += 1
            if quarantined(p):
                viol.append({"rule": "write-to-quarantined-file", "path": p, "line": line.strip()[:200]})
            e = end.get(p)
            if e is not None and off < e:
                viol.append({"rule": "pwrite-below-end-of-stored-bytes", "path": p, "offset": off, "end": e, "line": line.strip()[:200]})
            end[p] = max(e or 0, off + ln)
        elif name in ('ftruncate', 'truncate'):
            fm = fdpath.match(rest)
            p = fm.group(2) if fm else (re.search(r'"([^"]*)"', rest) or [None, ''])[1]
            if is_blob(p) and not harness:
                viol.append({"rule": "truncate-blob", "path": p, "line": line.strip()[:200]})
            elif is_blob(p):
                end[p] = None
        elif name in ('unlink', 'unlinkat'):
            pm = re.search(r'"([^"]*)"', rest)
            if pm and is_blob(pm.group(1)):
                stats["unlinks"] += 1
                if not harness:
                    viol.append({"rule": "unlink-blob", "path": pm.group(1), "line": line.strip()[:200]})
                end.pop(pm.group(1), None); existing.discard(pm.group(1))
        elif name in ('rename', 'renameat', 'renameat2'):
            ps = re.findall(r'"([^"]*)"', rest)
            if len(ps) >= 2 and is_blob(ps[0]):
                stats["renames"] += 1
                src, dst = ps[0], ps[1]
                if not harness:
                    if not quarantined(dst):
                        viol.append({"rule": "blob-renamed-outside-corrupted-dir", "path": src, "line": line.strip()[:200]})
                    if dst in existing:
                        viol.append({"rule": "rename-over-existing-file", "path": dst, "line": line.strip()[:200]})
                existing.add(dst); existing.discard(src)
                end[dst] = end.pop(src, None)
    stats["violations"] = viol[:20]
    stats["n_violations"] = len(viol)
    print(json.dumps(stats))

main()
