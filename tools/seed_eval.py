#!/usr/bin/env python3
"""Evaluates an independently seeded breaking change: tools/seed_eval.py <seed-name> <PROPERTY> <src-dir-with patch.diff+seed_demo.rs> [checks...]
Confirms (1) demo passes without the change, (2) existing suite passes with the change, (3) demo fails with the change,
then runs the named checks (default: the property's own) against the changed tree and files everything under /verif/seeded/<name>/."""
import subprocess, sys, os, shutil, json, hashlib, time

def sh(cmd, cwd=None, env=None, timeout=3600):
    # one temp dir per evaluated seed: the suite's tests use fixed directory names under TMPDIR, so two
    # evaluations running at the same time must not share it
    tmpd = "/tmp/seedchk-tmp-" + (sys.argv[1] if len(sys.argv) > 1 else "x")
    e = dict(os.environ, CARGO_NET_OFFLINE="true", TMPDIR=tmpd)
    os.makedirs(tmpd, exist_ok=True)
    if env: e.update(env)
    r = subprocess.run(cmd, shell=True, cwd=cwd, env=e, text=True, capture_output=True, timeout=timeout)
    return r.returncode, r.stdout + r.stderr

def run_checks(name, wt, checks, meta):
    res = meta.get("checks", {})
    for c in checks:
        t0 = time.time()
        r = subprocess.run(["/verif/check", c, "quick"], text=True, capture_output=True, env=dict(os.environ, VERIF_REPO=wt))
        sig = [l.strip() for l in r.stdout.splitlines() if l.strip().startswith("signature:")][:3]
        res[c] = {"verdict": {0: "MISSED", 1: "CAUGHT", 2: "INCONCLUSIVE"}.get(r.returncode, str(r.returncode)), "signatures": sig, "wall_s": round(time.time() - t0)}
        meta["ran"].append(f"VERIF_REPO=<changed tree> ./check {c} quick: {res[c]['verdict']}")
        print(name, c, res[c], flush=True)
    meta["checks"] = res

def recheck_only(name, prop, checks):
    """re-runs checks against an already confirmed seed in /verif/seeded/<name> (after the checks were strengthened)"""
    dst = f"/verif/seeded/{name}"
    meta = json.load(open(os.path.join(dst, "meta.json")))
    wt = f"/tmp/seedchk-{name}"
    sh(f"git -C /repo worktree remove --force {wt}")
    shutil.rmtree(wt, ignore_errors=True)
    rc, out = sh(f"git -C /repo worktree add --detach {wt} HEAD")
    assert rc == 0, out
    try:
        rc, out2 = sh(f"git apply --ignore-whitespace {dst}/patch.diff", cwd=wt)
        assert rc == 0, "patch does not apply: " + out2
        run_checks(name, wt, checks, meta)
        json.dump(meta, open(os.path.join(dst, "meta.json"), "w"), indent=1)
    finally:
        sh(f"git -C /repo worktree remove --force {wt}")
        shutil.rmtree(wt, ignore_errors=True)
        tag = hashlib.md5(wt.encode()).hexdigest()[:10]
        shutil.rmtree(f"/tmp/pv-shadow-{tag}", ignore_errors=True)

def main():
    name, prop, src = sys.argv[1], sys.argv[2], sys.argv[3]
    recheck = "--recheck" in sys.argv
    argv = [a for a in sys.argv if a != "--recheck"]
    checks = [prop] + [c for c in argv[4:] if c != prop]
    if recheck:
        return recheck_only(name, prop, checks if len(argv) > 4 else [prop])
    wt = f"/tmp/seedchk-{name}"
    sh(f"git -C /repo worktree remove --force {wt}")
    shutil.rmtree(wt, ignore_errors=True)
    rc, out = sh(f"git -C /repo worktree add --detach {wt} HEAD")
    assert rc == 0, out
    meta = {"name": name, "property": prop, "ran": []}
    try:
        demo = os.path.join(src, "seed_demo.rs")
        patch = os.path.join(src, "patch.diff")
        demo_txt = open(demo).read()
        in_tests = "#[cfg(test)]" not in demo_txt.split("\n")[0:5] and True
        uses_verif = "pearl::verif" in demo_txt or "features verif" in demo_txt
        feat = "--features verif" if uses_verif else ""
        shutil.copy(demo, os.path.join(wt, "tests", "seed_demo.rs"))
        rc, out = sh(f"cargo test --offline {feat} --test seed_demo 2>&1 | tail -30", cwd=wt)
        ok_without = "test result: ok" in out and "FAILED" not in out
        meta["demo_without_change"] = "pass" if ok_without else "FAIL"
        meta["ran"].append(f"cargo test --offline {feat} --test seed_demo   (unchanged tree): {'pass' if ok_without else 'fail'}")
        rc, out2 = sh(f"git apply --ignore-whitespace {patch}", cwd=wt)
        assert rc == 0, "patch does not apply: " + out2
        os.rename(os.path.join(wt, "tests", "seed_demo.rs"), os.path.join(wt, "seed_demo.rs.aside"))
        rc, out = sh("cargo test --workspace --no-fail-fast --offline 2>&1 | grep -E '^test result|FAILED|^error' | head -20", cwd=wt)
        suite_ok = out.count("test result: ok") >= 3 and "FAILED" not in out and "\nerror" not in ("\n" + out)
        meta["existing_suite_with_change"] = "pass" if suite_ok else "FAIL: " + out[-400:]
        meta["ran"].append(f"cargo test --workspace --no-fail-fast --offline   (changed tree, demo moved aside): {'pass' if suite_ok else 'fail'}")
        os.rename(os.path.join(wt, "seed_demo.rs.aside"), os.path.join(wt, "tests", "seed_demo.rs"))
        rc, out = sh(f"cargo test --offline {feat} --test seed_demo 2>&1 | tail -30", cwd=wt)
        fails_with = "FAILED" in out or "panicked" in out or "test result: FAILED" in out
        meta["demo_with_change"] = "fail (as required)" if fails_with else "PASSES (seed not confirmed)"
        meta["ran"].append(f"cargo test --offline {feat} --test seed_demo   (changed tree): {'fail' if fails_with else 'pass'}")
        os.remove(os.path.join(wt, "tests", "seed_demo.rs"))
        shutil.rmtree(os.path.join(wt, "target"), ignore_errors=True)
        meta["confirmed"] = bool(ok_without and suite_ok and fails_with)
        run_checks(name, wt, checks, meta)
        dst = f"/verif/seeded/{name}"
        os.makedirs(dst, exist_ok=True)
        shutil.copy(patch, os.path.join(dst, "patch.diff"))
        shutil.copy(demo, os.path.join(dst, "seed_demo.rs"))
        if os.path.exists(os.path.join(src, "notes.md")):
            shutil.copy(os.path.join(src, "notes.md"), os.path.join(dst, "notes.md"))
        json.dump(meta, open(os.path.join(dst, "meta.json"), "w"), indent=1)
        print(json.dumps({k: meta[k] for k in ("confirmed", "demo_without_change", "existing_suite_with_change", "demo_with_change")}))
    finally:
        sh(f"git -C /repo worktree remove --force {wt}")
        shutil.rmtree(wt, ignore_errors=True)
        tag = hashlib.md5(wt.encode()).hexdigest()[:10]
        shutil.rmtree(f"/tmp/pv-shadow-{tag}", ignore_errors=True)
        shutil.rmtree("/tmp/seedchk-tmp-" + name, ignore_errors=True)

main()
