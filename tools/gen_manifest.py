#!/usr/bin/env python3
"""Regenerates /verif/MANIFEST.json from the table below (run from /verif)."""
import json, subprocess

HOOK_COMMITS = ["3f52741", "cca9102"]

CHECKS = {
 "C01": dict(cat="exploration", tech="runtime monitoring: model-differential oracle (sequential reference model) over generated + enumerated histories",
   text="after every step of tens of thousands of generated histories (seeded random + all histories of length 5/6 over a 6-symbol alphabet) the read/contains answers of the real Storage are compared with a sequential reference model of the ranking rule; held = no disagreement on the executions produced",
   note="trusted: reference model (written from the property statement) and driver; covers only the histories/configurations generated for the seed; rotation through lifecycle API/worker barrier"),
 "C02": dict(cat="exploration", tech="runtime monitoring: model-differential oracle over generated + enumerated histories",
   text="after every step the version lists (read_all, read_all_with_deletion_marker, entry bytes+meta), read_with per meta, delete return counts and the duplicate policy (records physically stored) are compared with the reference model, both duplicate policies",
   note="trusted: reference model and driver; histories generated for the seed"),
 "C04": dict(cat="exploration", tech="runtime monitoring: model-differential oracle over maintenance-heavy histories, worker barrier hook",
   text="maintenance calls (close/create/restore, background variants, force update, free_excess_resources with racing dumps, offload, fsync, restart) are interleaved with data operations; each call's result is checked against its documented precondition and the full query surface is re-compared with the model after every step",
   note="trusted: reference model, driver, H2 barrier hook; abstract states visited are reported, not enumerated"),
 "C15": dict(cat="exploration", tech="runtime monitoring: model-differential oracle on counters + directory listing",
   text="all accounting getters are compared with the model after every step; disk_used is compared with the directory listing (exact at quiescent points, bounded otherwise)",
   note="trusted: reference model, driver; quarantine scenarios as listed in evidence"),
}

def main():
    props = [json.loads(l) for l in open("properties.jsonl")]
    checks = []
    for p in props:
        pid = p["id"]
        if pid not in CHECKS:
            continue
        c = CHECKS[pid]
        checks.append({
            "property_id": pid,
            "quick_cmd": f"./check {pid} quick",
            "thorough_cmd": f"./check {pid} thorough",
            "evidence_file": f"evidence/{pid}.json",
            "replay_cmd_template": "./check --replay {path}",
            "engine": "pv",
            "level_claimed": {"category": c["cat"], "text": c["text"], "design_ref": f"DESIGN.md section 5 ({pid})"},
            "level_note": c["note"],
            "technique": c["tech"],
        })
    na = [{"property_id": p["id"], "reason": "check not built yet (work in progress); planned per DESIGN.md section 5"} for p in props if p["id"] not in CHECKS]
    m = {
        "version": 1,
        "setup_cmd": "./check --build",
        "hooks": {
            "guard": "cargo feature `verif` of the pearl crate (off by default)",
            "enable": "the harness crate /verif/harness depends on pearl = { path = \"/repo\", features = [\"verif\"] }; every check first runs `cargo build --profile verif --offline`, so it always uses /repo's current working tree with hooks on",
            "baseline_off_cmd": "cd /repo && cargo test --workspace --no-fail-fast --offline",
            "source_commits": HOOK_COMMITS,
            "add_only": True,
        },
        "engines": [{"name": "pv", "path": "harness", "serves_properties": sorted(CHECKS.keys()),
                     "kind_free_text": "Rust harness: sequential reference model + step-by-step driver of the real Storage, I/O tap consumers (trace checkers, crash-state builder, failpoints), independent file parser, sharded runner writing evidence"}],
        "checks": checks,
        "not_applicable": na,
        "notes": "Exit codes of every check: 0 held on everything explored (may print KNOWN-FINDING lines), 1 VIOLATION, 2 INCONCLUSIVE (build failure / harness error / too few observations). Known findings: known_findings.json.",
    }
    json.dump(m, open("MANIFEST.json", "w"), indent=1)
    print("MANIFEST.json written:", len(checks), "checks,", len(na), "not claimed")

main()
