#!/usr/bin/env python3
"""Regenerates /verif/MANIFEST.json from the table below (run from /verif)."""
import json, subprocess

HOOK_COMMITS = ["3f52741", "cca9102", "65e3456", "1493529", "140e2ca"]  # in /repo: I/O tap + index probe; worker barrier/liveness probe; CRLF restore; add-only tidy; rotation debounce setter

CHECKS = {
 "C01": dict(cat="exploration", tech="runtime monitoring: model-differential oracle (sequential reference model) over generated + enumerated histories",
   text="after every step of tens of thousands of generated histories (seeded random + all histories of length 5/6 over a 6-symbol alphabet) the read/contains answers of the real Storage are compared with a sequential reference model of the ranking rule; held = no disagreement on the executions produced",
   note="trusted: reference model (written from the property statement) and driver; covers only the histories/configurations generated for the seed; rotation through lifecycle API/worker barrier"),
 "C02": dict(cat="exploration", tech="runtime monitoring: model-differential oracle over generated + enumerated histories",
   text="after every step the version lists (read_all, read_all_with_deletion_marker, entry bytes+meta), read_with per meta, delete return counts and the duplicate policy (records physically stored) are compared with the reference model, both duplicate policies",
   note="trusted: reference model and driver; histories generated for the seed"),
 "C03": dict(cat="fault_enumeration", tech="runtime monitoring: damage enumeration over index files + model-differential oracle at reopen, I/O tap to classify accepted vs regenerated",
   text="for random histories the closed directory is reopened under every enumerated index damage (remove, truncate at every structure boundary +-1 / every length, zero-length, header-only, written bit clear, half-written, stale copies, all subsets of removed files): init must succeed, all answers must equal the pre-close answers, new blob ids stay above every id ever present (incl. quarantined)",
   note="index bit flips are outside the statement; damage classes enumerated per history, histories sampled"),
 "C04": dict(cat="exploration", tech="runtime monitoring: model-differential oracle over maintenance-heavy histories, worker barrier hook",
   text="maintenance calls (close/create/restore, background variants, force update, free_excess_resources with racing dumps, offload, fsync, restart) are interleaved with data operations; each call's result is checked against its documented precondition and the full query surface is re-compared with the model after every step",
   note="trusted: reference model, driver, H2 barrier hook; abstract states visited are reported, not enumerated"),
 "C05": dict(cat="fault_enumeration", tech="runtime monitoring: byte-exact round trips across size thresholds + enumerated on-disk corruption of data bytes",
   text="values of every length around the 4096 and 81920 thresholds (and 0, 1, 200 KiB, 1 MiB) round-trip byte-exactly through all read paths with the index in memory / on disk / regenerated on both runtime flavours; every enumerated alteration (bit, byte, burst <= 32 bits) of stored data bytes must make the read fail or the blob be quarantined",
   note="CRC-32C detects all bursts <= 32 bits, so no probabilistic slack; meta bytes outside the corruption half"),
 "C06": dict(cat="fault_enumeration", tech="runtime monitoring: power-loss states built from the I/O tap (crash point x per-file cut) + real SIGKILL of a child process, recovery oracle via model and independent parser",
   text="every sampled (thorough: every) tap event is a crash point; directory states with per-file suffix truncation beyond the last sync are installed and the real init runs on them; served records must be a per-blob prefix of what was written (or the blob preserved intact), fully synced blobs served in full, storage usable; SIGKILLed child: acknowledged records served or recovered by tools::recovery_blob, post-recovery writes survive restarts",
   note="power-loss model: suffix truncation per file, directory operations atomic and durable; literal reading of the statement"),
 "C07": dict(cat="exploration", tech="runtime monitoring: byte snapshots of blob files + I/O tap trace rules (+ strace in thorough)",
   text="after every step of histories with restarts, external damage (quarantines) and injected I/O failures the bytes of all blob files are compared with the previous snapshot (prefix / moved intact), the tap shows no write below the stored end, truncate, remove, re-create, rename over an existing file or blob id reuse, and query passes perform no writes",
   note="snapshots taken at quiescent points (worker barrier); strace view only in thorough tier"),
 "C08": dict(cat="exploration", tech="runtime monitoring: client-boundary history + per-key max-register checker, quiescence model check, independent disk parse, timing-free deadlock monitor (+ TSan/ASan in thorough)",
   text="8..4000 concurrent client tasks with rotation, maintenance task and injected I/O delays; every read is checked against the recorded history (never stale, never foreign, never backwards), a filter probe never denies a key whose put was acknowledged before it, the quiescent state equals the model and every quiescent read is the rank-first record of the independently parsed files (timestamp, blob id, position), every blob parses to exactly the acknowledged records, 'pending operations + no I/O + no progress' is reported as deadlock, and a racing-creators schedule (forced update held inside its blob creation while a client creates the next blob) must give the same answers before and after a restart",
   note="schedules are those produced by the OS/tokio in the run (counted, not enumerated)"),
 "C09": dict(cat="exploration", tech="runtime monitoring: differential oracle in-memory index vs B+tree file through the H3 index probe over systematically enumerated shapes",
   text="for thousands of enumerated header multisets (16 key lengths incl. block-exact ones, key counts through 1..3+ inner levels and every last-leaf remainder, version runs around block multiples, ties, markers) the file index must answer every present/absent key exactly like the in-memory index it was built from, also after reopen and after loading back; files are parsed independently",
   note="probe builds headers with the write path's layout arithmetic; shapes enumerated, not proved"),
 "C10": dict(cat="exploration", tech="runtime monitoring: no-false-negative oracle over random filter configs/key sets (public API), hierarchical container scripts, storage-level histories (+ Miri in thorough)",
   text="bloom/range/combined filters: every added key is 'maybe' in memory, after raw round trip, off-loaded and probed byte-wise (answers equal in-memory answers), after merge; hierarchical filters under push/pop/remove/re-push/offload for group sizes 2..9; 4 threads adding through &self to one shared range / bloom / combined filter; storage-level check_filters/check_filter/get_filter/read after every step of close/restore/offload histories (incl. pearl's default bloom configuration and configuration changes across restarts)",
   note="cases generated for the seed; Miri run covers the aHash fallback unsafe code at small sizes"),
 "C11": dict(cat="fault_enumeration", tech="runtime monitoring: failpoint enumeration (n-th operation of each kind fails / is short) + model-differential oracle before, during and after the fault",
   text="for random histories every (fault class, n) position (quick: sampled) is re-run with one injected failure: the call errs or the fault is contained, all earlier acknowledged data stays readable with correct bytes for the rest of the session and after restart (or sits in a quarantined blob), the failed operation is never served, the storage keeps working and rotating; error kinds EIO, ENOSPC, ENOENT, EACCES, short writes, and kernel-made short writes through RLIMIT_FSIZE",
   note="faults injected at pearl's File layer (H1), one per run; partially applied multi-blob deletes are excluded per key"),
 "C12": dict(cat="exploration", tech="runtime monitoring: online checker over the ordered I/O tap trace (writes, syncs, index headers)",
   text="over complete traces of sequential histories and six dirty-byte limits: un-synced bytes of the active blob <= limit after each acknowledged operation + barrier, header synced before first record, index marked complete only for synced blob sizes (also on a kill image that is recovered), nothing dirty after explicit fsyncdata / close; concurrent writers with delayed writes and explicit syncs; a sync request still queued when the active blob is closed must not stop later background syncs",
   note="ground truth for 'synced' = file length covered by a completed sync under the per-file tap lock"),
 "C13": dict(cat="exploration", tech="runtime monitoring: bounded-liveness probe (worker-alive hook, overflow -> rotation, dumps complete, close under a timing-free hang monitor)",
   text="after random call sequences over the whole API incl. inapplicable background requests: the worker task is alive, overflowing the active blob leads to a new blob within 3 writes after the debounce, every closed blob gets its index file, a dump requested while another dump runs or during a dump pass longer than its time slice is not lost, deferred dumps fire (two requests inside one window), rotation survives a wall-clock step, a full worker channel and a request still queued when the active blob is closed, close returns",
   note="liveness restated as bounded progress; only pearl's own 200 ms debounce and deferred-dump timers are waited out"),
 "C14": dict(cat="fault_enumeration", tech="runtime monitoring: enumeration of cancellation points with a counting waker + 'maybe applied' model oracle + independent parse after restart",
   text="every operation kind x runtime flavour x fresh/reopened blob is dropped at each of its suspension points (k = 1..), with and without a racing next write; afterwards the surface must equal 'applied' or 'not applied' as a whole (switching only at restart), other data stays readable, 10 more operations work, all blobs parse and nothing is quarantined",
   note="suspension points are those the runtime produces on this machine; one known finding (partially applied cancelled delete) is listed"),
 "C15": dict(cat="exploration", tech="runtime monitoring: model-differential oracle on counters + directory listing",
   text="all accounting getters are compared with the model after every step; disk_used is compared with the directory listing (exact at quiescent points, bounded otherwise)",
   note="trusted: reference model, driver"),
 "C16": dict(cat="fault_enumeration", tech="runtime monitoring: damage enumeration over blob/index files + independent parser as well-formedness oracle + Storage opened on tool output",
   text="validate_blob/validate_index accept produced files and reject every enumerated truncation/alteration (undetectable classes are listed known findings); recovery (skip on/off), move_and_recover, migration and the reader tools are checked record-for-record against the independent parser, and the storage must serve what recovery wrote",
   note="well-formedness defined by the independent parser; three known findings for regions without checksum"),
 "C17": dict(cat="exploration", tech="runtime monitoring: differential replay of a corpus written and answered by the pinned release, exhaustive over index-file subsets",
   text="22 directories written by the pinned tree (4 key sizes, no bloom / two small / pearl's default bloom config, 1-4 blobs, multi-leaf indexes) plus 552 bloom vectors (serialised one-key filters for every key-length class of the hash) are opened / rebuilt by the current tree under every subset of removed index files, eager/lazy and with filters off-loaded: all recorded answers must be reproduced; version / key-size mismatches must be rejected or quarantined intact, never misread",
   note="corpus generated once from the pinned commit (tools/gen_corpus.sh), committed under corpus/"),
}

def main():
    props = [json.loads(l) for l in open("properties.jsonl")]
    checks = []
    for p in props:
        pid = p["id"]
        if pid not in CHECKS:
            continue
        c = CHECKS[pid]
        checks.append({
            "property_id": pid,
            "quick_cmd": f"./check {pid} quick",
            "thorough_cmd": f"./check {pid} thorough",
            "evidence_file": f"evidence/{pid}.json",
            "replay_cmd_template": "./check --replay {path}",
            "engine": "pv",
            "level_claimed": {"category": c["cat"], "text": c["text"], "design_ref": f"DESIGN.md section 5 ({pid})"},
            "level_note": c["note"],
            "technique": c["tech"],
        })
    na = [{"property_id": p["id"], "reason": "not claimed"} for p in props if p["id"] not in CHECKS]
    m = {
        "version": 1,
        "setup_cmd": "./check --build",
        "hooks": {
            "guard": "cargo feature `verif` of the pearl crate (off by default)",
            "enable": "the harness crate /verif/harness depends on pearl = { path = \"/repo\", features = [\"verif\"] }; every check first runs `cargo build --profile verif --offline`, so it always uses /repo's current working tree with hooks on",
            "baseline_off_cmd": "cd /repo && cargo test --workspace --no-fail-fast --offline",
            "source_commits": HOOK_COMMITS,
            "add_only": True,  # net effect: the hook commits only add lines (cca9102 also normalised the line endings of one CRLF file by mistake; 65e3456 restores them)
        },
        "engines": [{"name": "pv", "path": "harness", "serves_properties": sorted(CHECKS.keys()),
                     "kind_free_text": "Rust harness: sequential reference model + step-by-step driver of the real Storage, I/O tap consumers (trace checkers, crash-state builder, failpoints), independent file parser, sharded runner writing evidence"}],
        "checks": checks,
        "not_applicable": na,
        "notes": "Exit codes of every check: 0 held on everything explored (may print KNOWN-FINDING lines), 1 VIOLATION, 2 INCONCLUSIVE (build failure / harness error / too few observations). Known findings: known_findings.json.",
    }
    json.dump(m, open("MANIFEST.json", "w"), indent=1)
    print("MANIFEST.json written:", len(checks), "checks,", len(na), "not claimed")

main()
