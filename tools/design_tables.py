#!/usr/bin/env python3
"""Fills the mutation / seed tables of DESIGN.md from mutation_results.json and seeded/*/meta.json."""
import json, glob, re, os
d = open('/verif/DESIGN.md').read()
# --- mutation table
try:
    mr = json.load(open('/verif/mutation_results.json'))
except Exception:
    mr = {}
# notes come from the current mutant table (a note may be corrected after the run, e.g. a mutant found to be equivalent)
try:
    ns = {}
    exec(compile(open("/verif/tools/mutation.py").read().split("\ndef sh(")[0], "mutation_table", "exec"), ns)
    CUR = ns["M"]
except Exception as e:
    print("could not load current mutant notes:", e)
    CUR = {}
rows = ["| mutant | file | what | verdicts (quick tier) |", "|---|---|---|---|"]
caught = missed = equiv = 0
for k in sorted(mr):
    v = mr[k]
    verd = ", ".join(f"{c}: {x}" for c, x in sorted(v["checks"].items()))
    note = CUR.get(k, {}).get("note") or v.get("note", "")
    is_equiv = note.upper().startswith("EQUIVALENT") or note.upper().startswith("OUTSIDE") or note.lower().startswith("needle") or "sanity" in note.lower() or "allowed" in note.lower()
    anyc = any(x == "CAUGHT" for x in v["checks"].values())
    if is_equiv: equiv += 1
    elif anyc: caught += 1
    else: missed += 1
    rows.append(f"| `{k}` | {v.get('file','').replace('src/','')} | {note or '-'} | {verd} |")
summary = f"{caught} non-equivalent mutants caught by at least one of their checks, {missed} missed, {equiv} equivalent / allowed-by-the-property / outside-the-properties / needle mutants (the equivalent ones must not be reported).\n\n"
mt = summary + "\n".join(rows) + "\n"
# --- seed table
rows = ["| seed | property | confirmed (demo passes without / suite passes with / demo fails with) | checks run against it | note |", "|---|---|---|---|---|"]
for f in sorted(glob.glob('/verif/seeded/*/meta.json')):
    m = json.load(open(f))
    conf = f"{m.get('demo_without_change','?')} / {m.get('existing_suite_with_change','?')[:6]} / {m.get('demo_with_change','?')[:4]}"
    ch = ", ".join(f"{c}: {x['verdict']}" for c, x in m.get('checks', {}).items())
    rows.append(f"| `{m['name']}` | {m['property']} | {conf} | {ch} | {m.get('note','')} |")
st = "\n".join(rows) + "\n"
def repl(doc, begin, end, body):
    if begin in doc and end in doc:
        a = doc.index(begin) + len(begin); b = doc.index(end)
        return doc[:a] + "\n" + body + doc[b:]
    return doc
if "MUTATION_TABLE_PLACEHOLDER" in d:
    d = d.replace("MUTATION_TABLE_PLACEHOLDER", "<!-- mutation-table-begin -->\n" + mt + "<!-- mutation-table-end -->")
else:
    d = repl(d, "<!-- mutation-table-begin -->", "<!-- mutation-table-end -->", mt)
if "SEED_TABLE_PLACEHOLDER" in d:
    d = d.replace("SEED_TABLE_PLACEHOLDER", "<!-- seed-table-begin -->\n" + st + "<!-- seed-table-end -->")
else:
    d = repl(d, "<!-- seed-table-begin -->", "<!-- seed-table-end -->", st)
open('/verif/DESIGN.md', 'w').write(d)
print("tables written:", len(mr), "mutants,", len(glob.glob('/verif/seeded/*/meta.json')), "seeds")
