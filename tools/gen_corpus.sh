#!/bin/sh
# Regenerates /verif/corpus with the PINNED pearl tree (the first commit of /repo). Not part of any check:
# the corpus is committed; run this only to rebuild it from scratch.
set -e
PIN=$(git -C /repo rev-list --max-parents=0 HEAD)
WT=/tmp/pearl-pinned
git -C /repo worktree remove --force $WT 2>/dev/null || true
rm -rf $WT
git -C /repo worktree add --detach $WT $PIN
cd /verif/corpus_gen
CARGO_NET_OFFLINE=true cargo build --release --offline
rm -rf /verif/corpus.new
./target/release/corpus_gen /verif/corpus.new
rm -rf /verif/corpus && mv /verif/corpus.new /verif/corpus
echo "$PIN" > /verif/corpus/PINNED_COMMIT
git -C /repo worktree remove --force $WT
rm -rf /verif/corpus_gen/target
du -sh /verif/corpus
