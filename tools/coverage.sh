#!/bin/sh
# usage: tools/coverage.sh [tier] [checks...]   (default: quick, all 17)
# Builds the harness with source-based coverage instrumentation (nightly, offline), runs the named checks and
# reports which regions/lines/functions of /repo/src the workloads executed (llvm-cov from the nightly sysroot).
# Everything lives in a scratch directory under /tmp that is removed at the end; the report goes to
ROOT=$(cd "$(dirname "$0")/.." && pwd)
TIER=${1:-quick}; shift 2>/dev/null
CHECKS=${*:-C01 C02 C03 C04 C05 C06 C07 C08 C09 C10 C11 C12 C13 C14 C15 C16 C17}
export CARGO_NET_OFFLINE=true
W=/tmp/pv-cov
rm -rf $W; mkdir -p $W/root/evidence $W/root/tools $W/prof
cp "$ROOT"/tools/*.py "$ROOT"/tools/*.sh $W/root/tools/
ln -sfn "$ROOT/known_findings.json" $W/root/known_findings.json
ln -sfn "$ROOT/properties.jsonl" $W/root/properties.jsonl
ln -sfn "$ROOT/corpus" $W/root/corpus
SYS=$(rustc +nightly --print sysroot)
BIN=$SYS/lib/rustlib/x86_64-unknown-linux-gnu/bin
(cd "$ROOT/harness" && RUSTFLAGS="-Cinstrument-coverage" cargo +nightly build --profile verif --offline -q --target-dir $W/target) >$W/build.log 2>&1 || { echo "coverage build failed"; tail -20 $W/build.log; exit 2; }
PV=$W/target/verif/pv
export VERIF_ROOT=$W/root LLVM_PROFILE_FILE="$W/prof/pv-%p-%m.profraw"
for c in $CHECKS; do
    "$PV" check $c $TIER 2>&1 | grep -E "^(HELD|VIOLATION|INCONCLUSIVE)" | head -3
    # merge as we go: raw profiles are large
    ls $W/prof/*.profraw >/dev/null 2>&1 && { $BIN/llvm-profdata merge -sparse $W/prof/*.profraw $( [ -f $W/all.profdata ] && echo $W/all.profdata ) -o $W/all.new 2>/dev/null && mv $W/all.new $W/all.profdata; rm -f $W/prof/*.profraw; }
done
mkdir -p "$ROOT/coverage"
$BIN/llvm-cov report "$PV" -instr-profile=$W/all.profdata --ignore-filename-regex='(/root/\.cargo|/rustc/|/verif/harness)' 2>/dev/null > "$ROOT/coverage/by_file.txt"
tail -1 "$ROOT/coverage/by_file.txt" > "$ROOT/coverage/summary.txt"
$BIN/llvm-cov show "$PV" -instr-profile=$W/all.profdata --ignore-filename-regex='(/root/\.cargo|/rustc/|/verif/harness)' --show-line-counts-or-regions=false -format=text $(find /repo/src -name '*.rs') 2>/dev/null > $W/show.txt
python3 "$ROOT/tools/coverage_lines.py" $W/show.txt "$ROOT/coverage/uncovered_lines.txt"
cat "$ROOT/coverage/summary.txt"
rm -rf $W
