#!/bin/sh
# Runs the C10 unit-level filter monitor under Miri (nightly toolchain, offline). Prints the program's
# summary line; exit 0 = no undefined behaviour / data race / assertion failure reported.
cd "$(dirname "$0")/../miri_c10" || exit 2
export CARGO_NET_OFFLINE=true
export MIRIFLAGS="-Zmiri-disable-isolation"
SEED=${1:-1}
CASES=${2:-6}
exec cargo +nightly miri run --offline -q -- "$SEED" "$CASES"
