//! Writes the C17 corpus with the PINNED pearl tree and records the answers that tree gives.
use bytes::Bytes;
use pearl::{ArrayKey, BlobRecordTimestamp, BloomConfig, Builder, Meta, ReadResult, Storage};
use serde_json::{json, Value};
use sha2::{Digest, Sha256};
use std::path::{Path, PathBuf};

fn splitmix(x: &mut u64) -> u64 {
    *x = x.wrapping_add(0x9E37_79B9_7F4A_7C15);
    let mut z = *x;
    z = (z ^ (z >> 30)).wrapping_mul(0xBF58_476D_1CE4_E5B9);
    z = (z ^ (z >> 27)).wrapping_mul(0x94D0_49BB_1331_11EB);
    z ^ (z >> 31)
}

fn key_bytes(seed: u64, k: u64, n: usize) -> Vec<u8> {
    let mut s = seed ^ (k.wrapping_mul(0x1234_5678_9ABC_DEF1));
    let mut out = Vec::new();
    while out.len() < n {
        out.extend_from_slice(&splitmix(&mut s).to_le_bytes());
    }
    out.truncate(n);
    out
}

fn value_bytes(id: u64, size: usize) -> Vec<u8> {
    let mut s = id;
    let mut out = Vec::new();
    out.extend_from_slice(&id.to_le_bytes());
    while out.len() < size {
        out.extend_from_slice(&splitmix(&mut s).to_le_bytes());
    }
    out.truncate(size);
    out
}

fn meta_of(id: u8) -> Meta {
    let mut m = Meta::new();
    match id {
        0 => {}
        1 => {
            m.insert("m".to_string(), b"A".to_vec());
        }
        _ => {
            m.insert("m".to_string(), b"B".to_vec());
            m.insert("x".to_string(), vec![1u8, 2, 3]);
        }
    }
    m
}

fn hexs(b: &[u8]) -> String {
    b.iter().map(|x| format!("{:02x}", x)).collect()
}

fn digest(b: &[u8]) -> String {
    hexs(&Sha256::digest(b)[..16])
}

fn bloom_cfg(kind: u8) -> Option<BloomConfig> {
    match kind {
        0 => None,
        1 => Some(BloomConfig { elements: 50, hashers_count: 2, max_buf_bits_count: 1001, buf_increase_step: 7, preferred_false_positive_rate: 0.01 }),
        3 => Some(BloomConfig::default()),
        _ => Some(BloomConfig { elements: 300, hashers_count: 3, max_buf_bits_count: 4099, buf_increase_step: 13, preferred_false_positive_rate: 0.001 }),
    }
}

fn builder(dir: &Path, bloom: u8) -> Builder {
    let mut b = Builder::new().work_dir(dir).blob_file_name_prefix("t").max_blob_size(1 << 40).max_data_in_blob(1_000_000_000).allow_duplicates().set_bloom_filter_group_size(2);
    if let Some(c) = bloom_cfg(bloom) {
        b = b.set_filter_config(c);
    }
    b
}

async fn answers<const N: usize>(s: &Storage<ArrayKey<N>>, seed: u64, n_keys: u64) -> Value {
    let mut keys = Vec::new();
    for k in 0..(n_keys + 6) {
        let kb = key_bytes(seed, k, N);
        let key = ArrayKey::<N>::from(kb.clone());
        let read = match s.read(&key).await.expect("read") {
            ReadResult::Found(b) => json!({"found": digest(&b), "len": b.len()}),
            ReadResult::Deleted(t) => json!({"deleted": u64::from(Into::<u64>::into(t))}),
            ReadResult::NotFound => json!("notfound"),
        };
        let contains = match s.contains(&key).await.expect("contains") {
            ReadResult::Found(t) => json!({"found": Into::<u64>::into(t)}),
            ReadResult::Deleted(t) => json!({"deleted": Into::<u64>::into(t)}),
            ReadResult::NotFound => json!("notfound"),
        };
        let mut list = Vec::new();
        for mut e in s.read_all_with_deletion_marker(&key).await.expect("read_all") {
            let ts: u64 = e.timestamp().into();
            let del = e.is_deleted();
            let data = e.load_data().await.expect("load_data");
            let meta = e.load_meta().await.expect("load_meta").cloned().unwrap_or_default();
            let mut mm: Vec<(String, String)> = ["m", "x"].iter().filter_map(|n| meta.get(n).map(|v| (n.to_string(), hexs(v)))).collect();
            mm.sort();
            list.push(json!({"ts": ts, "deleted": del, "data": digest(&data), "len": data.len(), "meta": mm}));
        }
        let mut with = Vec::new();
        for m in 0..3u8 {
            with.push(match s.read_with(&key, &meta_of(m)).await.expect("read_with") {
                ReadResult::Found(b) => json!({"found": digest(&b)}),
                ReadResult::Deleted(t) => json!({"deleted": Into::<u64>::into(t)}),
                ReadResult::NotFound => json!("notfound"),
            });
        }
        let filters = s.check_filters(&key).await;
        keys.push(json!({"k": k, "key": hexs(&kb), "read": read, "contains": contains, "list": list, "read_with": with, "check_filters": filters}));
    }
    json!({
        "keys": keys,
        "records_count": s.records_count().await,
        "records_count_detailed": s.records_count_detailed().await.iter().map(|d| d.1).collect::<Vec<_>>(),
        "blobs_count": s.blobs_count().await,
        "next_blob_id": s.next_blob_id(),
    })
}

async fn gen<const N: usize>(root: &Path, bloom: u8, n_blobs: usize, seed: u64) {
    gen_sized::<N>(root, bloom, n_blobs, seed, 14, 10, 14, "").await
}

/// `big` directories: hundreds of keys and 600..1200 records per blob, so that the index files have many leaves
/// and an inner level (the small ones fit into a single leaf)
async fn gen_sized<const N: usize>(root: &Path, bloom: u8, n_blobs: usize, seed: u64, n_keys: u64, per_min: u64, per_span: u64, suffix: &str) {
    let name = format!("k{}-b{}-n{}{}", N, bloom, n_blobs, suffix);
    let dir: PathBuf = root.join(&name);
    let _ = std::fs::remove_dir_all(&dir);
    let mut s: Storage<ArrayKey<N>> = builder(&dir, bloom).build().expect("build");
    s.init().await.expect("init");
    let mut rs = seed;
    let mut id = 1u64;
    for b in 0..n_blobs {
        let per = per_min + (splitmix(&mut rs) % per_span);
        for _ in 0..per {
            let r = splitmix(&mut rs);
            let k = r % n_keys;
            let key = ArrayKey::<N>::from(key_bytes(seed, k, N));
            let ts = (r >> 8) % 5;
            match (r >> 16) % 10 {
                0 | 1 => {
                    s.delete(&key, BlobRecordTimestamp::new(ts), (r >> 24) % 2 == 0).await.expect("delete");
                }
                2 => {
                    s.delete_with(&key, BlobRecordTimestamp::new(ts), meta_of(1), false).await.expect("delete_with");
                }
                3 | 4 | 5 => {
                    let size = match (r >> 28) % 8 {
                        0 => 0,
                        1 => 4500,
                        _ => 8 + ((r >> 32) % 60) as usize,
                    };
                    s.write_with(&key, Bytes::from(value_bytes(id, size)), BlobRecordTimestamp::new(ts), meta_of(1 + ((r >> 40) % 2) as u8)).await.expect("write_with");
                    id += 1;
                }
                _ => {
                    let size = 8 + ((r >> 32) % 60) as usize;
                    s.write(&key, Bytes::from(value_bytes(id, size)), BlobRecordTimestamp::new(ts)).await.expect("write");
                    id += 1;
                }
            }
        }
        if b + 1 < n_blobs {
            s.try_close_active_blob().await.expect("close active");
            s.try_create_active_blob().await.expect("create active");
        }
    }
    // clean close and reopen with the pinned tree itself: recorded answers are those of a restarted storage
    s.close().await.expect("close");
    let mut s: Storage<ArrayKey<N>> = builder(&dir, bloom).build().expect("build");
    s.init().await.expect("init2");
    let a = answers(&s, seed, n_keys).await;
    s.close().await.expect("close2");
    let meta = json!({"name": name, "keylen": N, "bloom": bloom, "n_blobs": n_blobs, "seed": seed, "n_keys": n_keys, "answers": a});
    std::fs::write(dir.join("answers.json"), serde_json::to_string(&meta).unwrap()).unwrap();
    println!("{}: {} records", name, meta["answers"]["records_count"]);
}

/// key of length `len` for the bloom vectors: pattern 0 = mixed bytes, 1 = all 0xFF, 2 = all 0x00 but the last
fn vector_key(len: usize, pattern: u64) -> Vec<u8> {
    match pattern {
        0 => (0..len).map(|i| ((i * 37 + len * 11 + 5) & 0xff) as u8).collect(),
        1 => vec![0xFF; len],
        _ => {
            let mut k = vec![0u8; len];
            k[len - 1] = 1;
            k
        }
    }
}

fn vector_lengths() -> Vec<usize> {
    let mut v: Vec<usize> = (1..=80).collect();
    v.extend([95, 96, 97, 100, 127, 128, 129, 200, 255, 256, 257, 1000]);
    v
}

/// Bloom filters of the pinned tree holding exactly one key, for every key length class of the hash function
/// (1, 2-3, 4-8, 9-16, above 16 with every tail length) and two filter geometries: the serialised filter is recorded.
fn gen_bloom_vectors(root: &Path) {
    let cfgs = [
        BloomConfig { elements: 50, hashers_count: 2, max_buf_bits_count: 1001, buf_increase_step: 7, preferred_false_positive_rate: 0.01 },
        BloomConfig { elements: 30, hashers_count: 5, max_buf_bits_count: 333, buf_increase_step: 13, preferred_false_positive_rate: 0.001 },
    ];
    let mut out = Vec::new();
    for (ci, cfg) in cfgs.iter().enumerate() {
        for len in vector_lengths() {
            for pattern in 0..3u64 {
                let key = vector_key(len, pattern);
                let b = pearl::Bloom::new(cfg.clone());
                b.add(&key).expect("add");
                let raw = b.to_raw().expect("to_raw");
                out.push(json!({"cfg": ci, "len": len, "pattern": pattern, "raw": hexs(&raw)}));
            }
        }
    }
    let n = out.len();
    std::fs::write(root.join("bloom_vectors.json"), serde_json::to_vec(&json!({"vectors": out})).unwrap()).unwrap();
    println!("bloom_vectors.json: {} vectors", n);
}

#[tokio::main(flavor = "multi_thread", worker_threads = 2)]
async fn main() {
    let root = PathBuf::from(std::env::args().nth(1).expect("usage: corpus_gen <out dir>"));
    std::fs::create_dir_all(&root).unwrap();
    if std::env::var("CORPUS_ONLY_BLOOM_VECTORS").is_ok() {
        gen_bloom_vectors(&root);
        return;
    }
    // pearl's default bloom configuration (filters of several hundred KiB per blob)
    if std::env::var("CORPUS_ONLY_DEFAULT_BLOOM").is_ok() {
        gen_sized::<8>(&root, 3, 2, 0xDEF_0008, 14, 10, 14, "").await;
        return;
    }
    // multi-leaf / two-level index files
    gen_sized::<8>(&root, 1, 3, 0xB16_0008, 400, 600, 600, "-big").await;
    gen_sized::<32>(&root, 2, 2, 0xB16_0032, 300, 600, 400, "-big").await;
    gen_sized::<4>(&root, 0, 2, 0xB16_0004, 500, 700, 300, "-big").await;
    if std::env::var("CORPUS_ONLY_BIG").is_ok() {
        return;
    }
    gen_sized::<8>(&root, 3, 2, 0xDEF_0008, 14, 10, 14, "").await;
    gen_bloom_vectors(&root);
    let mut seed = 0xC17u64;
    for bloom in 0..3u8 {
        for n_blobs in 1..=4usize {
            seed += 1;
            match (bloom as usize + n_blobs) % 4 {
                0 => gen::<4>(&root, bloom, n_blobs, seed).await,
                1 => gen::<8>(&root, bloom, n_blobs, seed).await,
                2 => gen::<16>(&root, bloom, n_blobs, seed).await,
                _ => gen::<32>(&root, bloom, n_blobs, seed).await,
            }
        }
    }
    // every key size with and without bloom at least once with 2 blobs
    for bloom in [0u8, 1] {
        seed += 1;
        gen::<4>(&root, bloom, 2, seed ^ 0x44).await;
        gen::<8>(&root, bloom, 2, seed ^ 0x88).await;
        gen::<16>(&root, bloom, 2, seed ^ 0x1616).await;
        gen::<32>(&root, bloom, 2, seed ^ 0x3232).await;
    }
}
