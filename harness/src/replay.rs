//! `pv replay <file>`: re-executes a witness written by a check.

use crate::checks;
use crate::drive::Cfg;
use crate::evidence::read_json;
use crate::ops::history_from_json;
use std::path::Path;

pub fn replay(path: &Path) -> i32 {
    let v = match read_json(path) {
        Some(v) => v,
        None => {
            eprintln!("cannot read {}", path.display());
            return 2;
        }
    };
    crate::runner::install_panic_hook();
    let r = &v["replay"];
    let check = r["check"].as_str().unwrap_or("");
    println!("replaying {} (property {}, signature {})", check, v["property"].as_str().unwrap_or("?"), v["signature"].as_str().unwrap_or("?"));
    println!("recorded detail: {}", v["detail"].as_str().unwrap_or(""));
    let code = match check {
        "c01" | "c02" | "c04" | "c15" | "c10-storage" => {
            let cfg = Cfg::from_json(&r["cfg"]);
            let ops = history_from_json(&r["history"]);
            let surface = r["surface"].as_u64().unwrap_or(0) as u32;
            let hid = r["hist_id"].as_u64().unwrap_or(0);
            match (cfg, ops) {
                (Some(cfg), Some(ops)) => {
                    let out = checks::common::run_history(&cfg, hid, &ops, surface);
                    match out.result {
                        checks::common::HistResult::Done => {
                            println!("history ran to completion without a mismatch ({} queries compared)", out.stats.compared);
                            0
                        }
                        checks::common::HistResult::Mismatch(m) => {
                            println!("MISMATCH at step {} [{}] {}: {}", m.step, m.class.name(), m.sig, m.detail);
                            1
                        }
                        checks::common::HistResult::Panic(p) => {
                            println!("PANIC {}", p);
                            1
                        }
                    }
                }
                _ => {
                    eprintln!("malformed replay file");
                    2
                }
            }
        }
        "c13" => checks::c13::replay(r),
        "c11" => checks::c11::replay(r),
        other => {
            println!("no dedicated replayer for '{}': re-run the check with VERIF_SEED={} (the witness file holds the full case description)", other, v["seed"]);
            0
        }
    };
    crate::runner::cleanup_scratch();
    code
}
