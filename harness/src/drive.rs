//! Runs a history against a real `Storage` and the reference model, step by step, and compares
//! return values and the query surface.

use crate::model::{MRead, Model, Rec};
use crate::ops::Op;
use crate::rng::mix;
use bytes::Bytes;
use pearl::{ArrayKey, BlobRecordTimestamp, BloomConfig, BloomProvider, Builder, FilterResult, Meta, ReadResult, Storage};
use serde_json::{json, Value};
use std::path::{Path, PathBuf};
use std::time::Duration;

#[derive(Clone, Debug)]
pub struct Cfg {
    pub keylen: usize,
    /// 0 = no bloom filter, 1 = small odd-sized bloom, 2 = pearl default bloom config
    pub bloom: u8,
    pub group: usize,
    pub allow_dup: bool,
    pub mt: bool,
    pub validate_data: bool,
    pub ignore_corrupted: bool,
    pub max_dirty: Option<u64>,
    pub key_salt: u64,
    pub n_keys: u16,
    pub n_meta: u8,
    /// record limit per blob (None = practically unlimited: rotation only through the lifecycle API)
    pub max_records: Option<u64>,
    /// with `max_records`: rotation debounce interval 0 (verif builder hook), so that the background
    /// worker replaces the active blob as soon as the limit is reached; the driver mirrors every
    /// observed rotation into the model after the step
    pub auto_rotate: bool,
    /// size limit of a blob file (None = practically unlimited); with `auto_rotate` the worker rotates on it
    pub max_blob_size: Option<u64>,
    /// deferred index dump times (min, max) in ms; None = (1, 3)
    pub deferred_ms: Option<(u64, u64)>,
    /// every `Restart` re-opens the directory under another bloom configuration (1 -> 4 -> 3 -> 1 ...: other bit count, other hasher count, with an
    /// occasional 0 = no bloom): closed blobs written under different configurations then share filter groups
    pub bloom_flip: bool,
    /// name of the quarantine directory inside the work dir (None = pearl's default, "corrupted")
    pub corrupted_dir: Option<String>,
    /// permits of the semaphore given to Builder::set_dump_sem (None = pearl's own, one permit): with more than
    /// one permit the blobs of a directory are opened (and their indexes regenerated) concurrently at init
    pub dump_permits: Option<u8>,
}

impl Cfg {
    pub fn corrupted_name(&self) -> &str {
        self.corrupted_dir.as_deref().unwrap_or("corrupted")
    }
    pub fn to_json(&self) -> Value {
        json!({"keylen": self.keylen, "bloom": self.bloom, "group": self.group, "allow_dup": self.allow_dup,
               "mt": self.mt, "validate_data": self.validate_data, "ignore_corrupted": self.ignore_corrupted,
               "max_dirty": self.max_dirty, "key_salt": self.key_salt, "n_keys": self.n_keys, "n_meta": self.n_meta, "max_records": self.max_records, "auto_rotate": self.auto_rotate, "bloom_flip": self.bloom_flip, "max_blob_size": self.max_blob_size, "deferred_ms": self.deferred_ms.map(|d| vec![d.0, d.1]), "corrupted_dir": self.corrupted_dir, "dump_permits": self.dump_permits})
    }
    pub fn from_json(v: &Value) -> Option<Cfg> {
        Some(Cfg {
            keylen: v.get("keylen")?.as_u64()? as usize,
            bloom: v.get("bloom")?.as_u64()? as u8,
            group: v.get("group")?.as_u64()? as usize,
            allow_dup: v.get("allow_dup")?.as_bool()?,
            mt: v.get("mt")?.as_bool()?,
            validate_data: v.get("validate_data")?.as_bool()?,
            ignore_corrupted: v.get("ignore_corrupted")?.as_bool()?,
            max_dirty: v.get("max_dirty").and_then(|x| x.as_u64()),
            key_salt: v.get("key_salt")?.as_u64()?,
            n_keys: v.get("n_keys")?.as_u64()? as u16,
            n_meta: v.get("n_meta")?.as_u64()? as u8,
            max_records: v.get("max_records").and_then(|x| x.as_u64()),
            auto_rotate: v.get("auto_rotate").and_then(|x| x.as_bool()).unwrap_or(false),
            bloom_flip: v.get("bloom_flip").and_then(|x| x.as_bool()).unwrap_or(false),
            max_blob_size: v.get("max_blob_size").and_then(|x| x.as_u64()),
            deferred_ms: v.get("deferred_ms").and_then(|x| x.as_array()).and_then(|a| Some((a.first()?.as_u64()?, a.get(1)?.as_u64()?))),
            corrupted_dir: v.get("corrupted_dir").and_then(|x| x.as_str()).map(|x| x.to_string()),
            dump_permits: v.get("dump_permits").and_then(|x| x.as_u64()).map(|x| x as u8),
        })
    }
    pub fn default_for(n_keys: u16, n_meta: u8) -> Cfg {
        Cfg {
            keylen: 8, bloom: 1, group: 2, allow_dup: true, mt: true, validate_data: false,
            ignore_corrupted: false, max_dirty: None, key_salt: 1, n_keys, n_meta, max_records: None, auto_rotate: false, bloom_flip: false, max_blob_size: None, deferred_ms: None, corrupted_dir: None, dump_permits: None,
        }
    }
}

/// same bit count as `small_bloom`, three hash functions
pub fn small_bloom_3() -> BloomConfig {
    BloomConfig { hashers_count: 3, ..small_bloom() }
}

/// two hash functions like `small_bloom`, another bit count
pub fn small_bloom_narrow() -> BloomConfig {
    BloomConfig { max_buf_bits_count: 333, ..small_bloom() }
}

/// the bloom configuration a directory is re-opened with after a restart when `bloom_flip` is on
pub fn next_bloom_cfg(cur: u8, restarts: u64) -> u8 {
    match cur {
        1 => 4,
        4 => 3,
        3 if restarts % 3 == 0 => 0,
        // pearl's default configuration (100 000 elements: a filter of several hundred KiB per blob)
        3 if restarts % 3 == 1 => 2,
        3 => 1,
        _ => 1,
    }
}

pub fn small_bloom() -> BloomConfig {
    BloomConfig {
        elements: 50,
        hashers_count: 2,
        max_buf_bits_count: 1001,
        buf_increase_step: 7,
        preferred_false_positive_rate: 0.01,
    }
}

pub fn key_bytes(salt: u64, k: u16, n: usize) -> Vec<u8> {
    let mut out = Vec::with_capacity(n);
    let mut i = 0u64;
    while out.len() < n {
        let x = mix(salt ^ 0xA5A5_5A5A, ((k as u64) << 20) | i).to_le_bytes();
        let take = (n - out.len()).min(8);
        out.extend_from_slice(&x[..take]);
        i += 1;
    }
    out
}

pub fn value_bytes(val: u64, size: u32) -> Vec<u8> {
    let mut out = Vec::with_capacity(size as usize);
    out.extend_from_slice(&val.to_le_bytes()[..(size as usize).min(8)]);
    let mut i = 0u64;
    while out.len() < size as usize {
        let mut x = mix(val, i).to_le_bytes();
        for b in x.iter_mut() {
            if *b == 0 {
                *b = 0xA5;
            }
        }
        let take = (size as usize - out.len()).min(8);
        out.extend_from_slice(&x[..take]);
        i += 1;
    }
    out
}

pub fn val_of_bytes(b: &[u8]) -> Option<u64> {
    if b.len() >= 8 {
        Some(u64::from_le_bytes(b[..8].try_into().unwrap()))
    } else {
        None
    }
}

pub fn meta_of(id: u8) -> Meta {
    let mut m = Meta::new();
    match id {
        0 => {}
        1 => {
            m.insert("m".to_string(), b"A".to_vec());
        }
        2 => {
            m.insert("m".to_string(), b"B".to_vec());
            m.insert("x".to_string(), vec![1u8, 2, 3]);
        }
        n => {
            m.insert("m".to_string(), vec![n; n as usize]);
        }
    }
    m
}

#[derive(Clone, Copy, Debug, PartialEq, Eq, Hash)]
pub enum Class {
    Read,
    Contains,
    Lists,
    ReadWith,
    DelCount,
    DupPolicy,
    DataOp,
    Lifecycle,
    Counts,
    DiskUsed,
    Filters,
    Worker,
    Init,
    Close,
}

impl Class {
    pub fn name(&self) -> &'static str {
        match self {
            Class::Read => "read",
            Class::Contains => "contains",
            Class::Lists => "lists",
            Class::ReadWith => "read_with",
            Class::DelCount => "delete_count",
            Class::DupPolicy => "dup_policy",
            Class::DataOp => "data_op",
            Class::Lifecycle => "lifecycle",
            Class::Counts => "counts",
            Class::DiskUsed => "disk_used",
            Class::Filters => "filters",
            Class::Worker => "worker",
            Class::Init => "init",
            Class::Close => "close",
        }
    }
}

#[derive(Clone, Debug)]
pub struct Mismatch {
    pub class: Class,
    /// stable, number-free scenario identity
    pub sig: String,
    pub detail: String,
    pub step: usize,
}

pub const S_READ: u32 = 1;
pub const S_CONTAINS: u32 = 2;
pub const S_LISTS: u32 = 4;
pub const S_READ_WITH: u32 = 8;
pub const S_FILTERS: u32 = 16;
pub const S_COUNTS: u32 = 32;
pub const S_DISK: u32 = 64;
pub const S_RECCOUNT: u32 = 128;
pub const S_ALL_QUERIES: u32 = S_READ | S_CONTAINS | S_LISTS | S_READ_WITH;

#[derive(Clone, Debug, Default)]
pub struct Stats {
    pub compared: u64,
    pub steps: u64,
    pub ties_in_blob: u64,
    pub ties_across_blobs: u64,
    pub multi_blob_keys: u64,
    pub max_versions: u64,
    pub marker_multi_blob: u64,
    pub restarts: u64,
    pub idx_removed: u64,
    pub dup_skipped: u64,
    pub lifecycle_ok: u64,
    pub lifecycle_err: u64,
    pub del_in_closed: u64,
    pub filter_checks: u64,
    pub offloaded_bytes: u64,
    pub closed_on_disk_seen: u64,
    pub closed_in_mem_seen: u64,
    pub disk_exact: u64,
    pub disk_bounded: u64,
    pub auto_rotations: u64,
    pub auto_rotations_by_size: u64,
    pub bloom_flips: u64,
    pub overfull_steps: u64,
    pub abstract_states: std::collections::BTreeSet<u32>,
}

pub struct Driver<const N: usize> {
    pub dir: PathBuf,
    pub cfg: Cfg,
    pub storage: Option<Storage<ArrayKey<N>>>,
    pub model: Model,
    pub hist_id: u64,
    pub step: usize,
    pub stats: Stats,
    /// true right after a completed Dump (free_excess_resources + flushing barrier)
    pub quiescent: bool,
    pub offloaded: bool,
    /// keys whose expected state is unknown (partially applied operation under an injected fault)
    pub tainted: std::collections::BTreeSet<u16>,
    /// ids of blob files that stay in the work dir unserved (ignore_corrupted)
    pub ignored_ids: std::collections::BTreeSet<usize>,
    next_val: u64,
}

pub fn mk_key<const N: usize>(salt: u64, k: u16) -> ArrayKey<N> {
    ArrayKey::<N>::from(key_bytes(salt, k, N))
}

pub fn tsu(t: BlobRecordTimestamp) -> u64 {
    t.into()
}

fn rr_name<T>(r: &ReadResult<T>) -> &'static str {
    match r {
        ReadResult::Found(_) => "Found",
        ReadResult::Deleted(_) => "Deleted",
        ReadResult::NotFound => "NotFound",
    }
}
fn mr_name(r: &MRead) -> &'static str {
    match r {
        MRead::Found(_) => "Found",
        MRead::Deleted(_) => "Deleted",
        MRead::NotFound => "NotFound",
    }
}

pub fn builder_for(cfg: &Cfg, dir: &Path) -> Builder {
    let mut b = Builder::new()
        .work_dir(dir)
        .blob_file_name_prefix("t")
        .max_blob_size(cfg.max_blob_size.unwrap_or(1 << 40))
        .max_data_in_blob(cfg.max_records.unwrap_or(1_000_000_000))
        .set_bloom_filter_group_size(cfg.group)
        .set_deferred_index_dump_times(Duration::from_millis(cfg.deferred_ms.map(|d| d.0).unwrap_or(1)), Duration::from_millis(cfg.deferred_ms.map(|d| d.1).unwrap_or(3)))
        .set_validate_data_during_index_regen(cfg.validate_data);
    if cfg.allow_dup {
        b = b.allow_duplicates();
    }
    if cfg.ignore_corrupted {
        b = b.ignore_corrupted();
    }
    match cfg.bloom {
        1 => b = b.set_filter_config(small_bloom()),
        2 => b = b.set_filter_config(BloomConfig::default()),
        3 => b = b.set_filter_config(small_bloom_3()),
        4 => b = b.set_filter_config(small_bloom_narrow()),
        _ => {}
    }
    if let Some(d) = cfg.max_dirty {
        b = b.set_max_dirty_bytes_before_sync(d);
    }
    if cfg.auto_rotate {
        b = b.verif_debounce_interval_ms(0);
    }
    if let Some(name) = cfg.corrupted_dir.as_ref() {
        b = b.corrupted_dir_name(name.clone());
    }
    if let Some(n) = cfg.dump_permits {
        b = b.set_dump_sem(std::sync::Arc::new(tokio::sync::Semaphore::new(n as usize)));
    }
    b
}

/// Applies an operation to a model only (used for alternative "maybe applied" models)
pub fn apply_to_model(m: &mut Model, op: &Op, val: u64) {
    match op {
        Op::Put { k, ts, meta, size } => {
            m.write(*k, *ts, *meta, val, *size);
        }
        Op::Del { k, ts, meta, only_if } => {
            m.delete(*k, *ts, *meta, *only_if);
        }
        Op::Close | Op::CloseBg => {
            let _ = m.close_active();
        }
        Op::Create | Op::CreateBg => {
            let _ = m.create_active();
        }
        Op::Restore | Op::RestoreBg => {
            let _ = m.restore_active();
        }
        Op::ForceUpdate { pred } => m.force_update(*pred),
        Op::Restart { lazy, .. } => m.restart(*lazy),
        Op::Dump | Op::DumpNoWait | Op::Offload { .. } | Op::Fsync => {}
    }
}

impl<const N: usize> Driver<N> {
    /// value id the next `step(Put)` will use
    pub fn peek_val(&self) -> u64 {
        Self::val_for(self.hist_id, self.next_val)
    }

    /// unique value id without zero bytes (so that the zero-filled hole a failed append leaves can never
    /// coincide with the bytes that were meant to be written)
    fn val_for(hist_id: u64, n: u64) -> u64 {
        let mut b = mix(hist_id ^ 0x7061_6c75_6576, n).to_le_bytes();
        for x in b.iter_mut() {
            if *x == 0 {
                *x = 0x5A;
            }
        }
        u64::from_le_bytes(b)
    }

    pub fn new(dir: PathBuf, cfg: Cfg, hist_id: u64) -> Self {
        let model = Model::new(cfg.allow_dup);
        Driver { dir, cfg, storage: None, model, hist_id, step: 0, stats: Stats::default(), quiescent: false, offloaded: false, tainted: Default::default(), ignored_ids: Default::default(), next_val: 1 }
    }

    pub fn key(&self, k: u16) -> ArrayKey<N> {
        mk_key::<N>(self.cfg.key_salt, k)
    }

    fn mm(&self, class: Class, sig: impl Into<String>, detail: impl Into<String>) -> Mismatch {
        Mismatch { class, sig: sig.into(), detail: detail.into(), step: self.step }
    }

    pub fn st(&self) -> &Storage<ArrayKey<N>> {
        self.storage.as_ref().expect("storage open")
    }

    pub async fn open(&mut self, lazy: bool) -> Result<(), Mismatch> {
        let mut s: Storage<ArrayKey<N>> = builder_for(&self.cfg, &self.dir)
            .build()
            .map_err(|e| self.mm(Class::Init, "build-failed", format!("{:#}", e)))?;
        let r = if lazy { s.init_lazy().await } else { s.init().await };
        r.map_err(|e| self.mm(Class::Init, "init-failed", format!("init(lazy={}) failed: {:#}", lazy, e)))?;
        self.storage = Some(s);
        Ok(())
    }

    pub async fn close(&mut self) -> Result<(), Mismatch> {
        if let Some(s) = self.storage.take() {
            s.close()
                .await
                .map_err(|e| self.mm(Class::Close, "close-failed", format!("close failed: {:#}", e)))?;
        }
        Ok(())
    }

    pub fn fresh_val(&mut self) -> u64 {
        let v = Self::val_for(self.hist_id, self.next_val);
        self.next_val += 1;
        v
    }

    async fn barrier(&mut self, flush: bool) -> Result<(), Mismatch> {
        if !self.st().verif_barrier(flush).await {
            return Err(self.mm(Class::Worker, "worker-dead", "background worker task is not running (barrier unanswered)"));
        }
        Ok(())
    }

    pub async fn step(&mut self, op: &Op) -> Result<(), Mismatch> {
        let auto = self.cfg.auto_rotate && (self.cfg.max_records.is_some() || self.cfg.max_blob_size.is_some()) && matches!(op, Op::Put { .. } | Op::Del { .. });
        let before = if auto { Some((self.st().next_blob_id(), self.model.next_id)) } else { None };
        self.step_inner(op).await?;
        if let Some((real_before, model_before)) = before {
            self.sync_rotation(real_before, model_before).await?;
        }
        Ok(())
    }

    /// Automatic rotation (record limit reached, debounce 0): the worker has handled the request once
    /// the barrier returns. Whether it rotated is read from the id counter; a rotation is legal only
    /// when the model's active blob has reached the limit, and is then mirrored into the model. Not
    /// rotating yet is legal too (the blob must be older than the debounce interval: > 0 ms).
    async fn sync_rotation(&mut self, real_before: usize, model_before: usize) -> Result<(), Mismatch> {
        let limit = self.cfg.max_records.unwrap_or(u64::MAX);
        self.barrier(true).await?;
        let real_after = self.st().next_blob_id();
        let expected = real_before + (self.model.next_id - model_before);
        let cnt = self.model.records_in_active().unwrap_or(0) as u64;
        // the file length of the blob the model holds active (before a rotation is mirrored) is an observation
        let flen = self.model.active.and_then(|a| std::fs::metadata(self.dir.join(format!("t.{}.blob", a))).ok()).map(|m| m.len()).unwrap_or(0);
        let over = cnt >= limit || self.cfg.max_blob_size.map(|m| flen >= m).unwrap_or(false);
        if real_after == expected {
            if over {
                self.stats.overfull_steps += 1;
            }
            return Ok(());
        }
        if real_after == expected + 1 && over {
            self.model.force_update(true);
            self.stats.auto_rotations += 1;
            if cnt < limit {
                self.stats.auto_rotations_by_size += 1;
            }
            return Ok(());
        }
        Err(self.mm(Class::Lifecycle, "unexpected-rotation", format!("blob id counter moved from {} to {} (expected {}) with {} records / {} bytes in the model's active blob, limits {} records / {:?} bytes", real_before, real_after, expected, cnt, flen, limit, self.cfg.max_blob_size)))
    }

    async fn step_inner(&mut self, op: &Op) -> Result<(), Mismatch> {
        self.step += 1;
        self.stats.steps += 1;
        self.quiescent = false;
        match op {
            Op::Put { k, ts, meta, size } => {
                let val = self.fresh_val();
                let data = Bytes::from(value_bytes(val, *size));
                let key = self.key(*k);
                let res = match meta {
                    None => self.st().write(&key, data, BlobRecordTimestamp::new(*ts)).await,
                    Some(m) => self.st().write_with(&key, data, BlobRecordTimestamp::new(*ts), meta_of(*m)).await,
                };
                let stored = self.model.write(*k, *ts, *meta, val, *size);
                if !stored {
                    self.stats.dup_skipped += 1;
                }
                if let Err(e) = res {
                    // the model stays as "applied": the history is abandoned by the caller on any mismatch
                    let had_maint = if self.model.closed.is_empty() { "fresh" } else { "with-closed" };
                    return Err(self.mm(Class::DataOp, format!("write-err/{}", had_maint), format!("{} failed: {:#}", op.short(), e)));
                }
            }
            Op::Del { k, ts, meta, only_if } => {
                let key = self.key(*k);
                let res = match meta {
                    None => self.st().delete(&key, BlobRecordTimestamp::new(*ts), *only_if).await,
                    Some(m) => self.st().delete_with(&key, BlobRecordTimestamp::new(*ts), meta_of(*m), *only_if).await,
                };
                let closed_before: usize = self.model.closed.iter().filter(|c| self.model.blob_live(**c, *k)).count();
                let exp = self.model.delete(*k, *ts, *meta, *only_if);
                self.stats.del_in_closed += closed_before as u64;
                match res {
                    Err(e) => return Err(self.mm(Class::DataOp, "delete-err", format!("{} failed: {:#}", op.short(), e))),
                    Ok(n) if n != exp && !self.tainted.contains(k) => {
                        let rel = if n < exp { "fewer" } else { "more" };
                        return Err(self.mm(Class::DelCount, format!("delete-count/{}", rel), format!("{} returned {} blobs marked, model {}", op.short(), n, exp)));
                    }
                    Ok(_) => {}
                }
            }
            Op::Close | Op::Create | Op::Restore => {
                let (res, exp, name) = match op {
                    Op::Close => (self.st().try_close_active_blob().await, self.model.close_active(), "close"),
                    Op::Create => (self.st().try_create_active_blob().await, self.model.create_active(), "create"),
                    _ => (self.st().try_restore_active_blob().await, self.model.restore_active(), "restore"),
                };
                match (&res, &exp) {
                    (Ok(()), Ok(())) => self.stats.lifecycle_ok += 1,
                    (Err(_), Err(_)) => self.stats.lifecycle_err += 1,
                    (Ok(()), Err(me)) => {
                        return Err(self.mm(Class::Lifecycle, format!("{}-ok-unexpected", name), format!("try_{}_active_blob returned Ok, model expects {:?}", name, me)))
                    }
                    (Err(e), Ok(())) => {
                        return Err(self.mm(Class::Lifecycle, format!("{}-err-unexpected", name), format!("try_{}_active_blob failed although its precondition holds: {:#}", name, e)))
                    }
                }
            }
            Op::CloseBg | Op::CreateBg | Op::RestoreBg => {
                match op {
                    Op::CloseBg => {
                        self.st().close_active_blob_in_background().await;
                        let _ = self.model.close_active();
                    }
                    Op::CreateBg => {
                        self.st().create_active_blob_in_background().await;
                        let _ = self.model.create_active();
                    }
                    _ => {
                        self.st().restore_active_blob_in_background().await;
                        let _ = self.model.restore_active();
                    }
                }
                self.barrier(true).await?;
            }
            Op::ForceUpdate { pred } => {
                if *pred {
                    self.st().force_update_active_blob(|_| true).await;
                } else {
                    self.st().force_update_active_blob(|_| false).await;
                }
                self.model.force_update(*pred);
                self.barrier(true).await?;
            }
            Op::Dump => {
                let _ = self.st().free_excess_resources().await;
                self.barrier(true).await?;
                self.quiescent = true;
            }
            Op::DumpNoWait => {
                let _ = self.st().free_excess_resources().await;
            }
            Op::Offload { needed, level } => {
                let s = self.storage.as_mut().expect("open");
                let freed = s.offload_buffer(*needed as usize, *level as usize).await;
                self.stats.offloaded_bytes += freed as u64;
                if freed > 0 {
                    self.offloaded = true;
                }
            }
            Op::Fsync => {
                if let Err(e) = self.st().fsyncdata().await {
                    return Err(self.mm(Class::Lifecycle, "fsync-err", format!("fsyncdata failed: {}", e)));
                }
            }
            Op::Restart { lazy, rm_idx } => {
                self.close().await?;
                if *rm_idx != 0 {
                    for id in self.model.blobs.keys() {
                        if (rm_idx >> (id % 64)) & 1 == 1 {
                            let p = self.dir.join(format!("t.{}.index", id));
                            if p.exists() {
                                let _ = std::fs::remove_file(&p);
                                self.stats.idx_removed += 1;
                            }
                        }
                    }
                }
                self.model.restart(*lazy);
                self.stats.restarts += 1;
                if self.cfg.bloom_flip {
                    self.cfg.bloom = next_bloom_cfg(self.cfg.bloom, self.stats.restarts);
                    self.stats.bloom_flips += 1;
                }
                self.offloaded = false;
                self.open(*lazy).await?;
            }
        }
        Ok(())
    }

    fn expect_bytes(r: &Rec) -> Vec<u8> {
        value_bytes(r.val, r.size)
    }

    fn describe_bytes(b: &[u8]) -> String {
        match val_of_bytes(b) {
            Some(v) => format!("val#{:x}/{}B", v, b.len()),
            None => format!("{:?}", b),
        }
    }

    /// statistics about how interesting the current state is for a key
    pub fn note_key_shape(&mut self, k: u16) {
        let ranked = self.model.ranked(k);
        if ranked.is_empty() {
            return;
        }
        self.stats.max_versions = self.stats.max_versions.max(ranked.len() as u64);
        let top_ts = ranked[0].0.ts;
        let tied: Vec<&(Rec, usize, usize)> = ranked.iter().filter(|r| r.0.ts == top_ts).collect();
        if tied.len() > 1 {
            let blobs: std::collections::BTreeSet<usize> = tied.iter().map(|r| r.1).collect();
            if blobs.len() > 1 {
                self.stats.ties_across_blobs += 1;
            } else {
                self.stats.ties_in_blob += 1;
            }
        }
        let blobs: std::collections::BTreeSet<usize> = ranked.iter().map(|r| r.1).collect();
        if blobs.len() > 1 {
            self.stats.multi_blob_keys += 1;
            if ranked.iter().any(|r| r.0.del) {
                self.stats.marker_multi_blob += 1;
            }
        }
    }

    /// ids of the blob files currently in the work dir
    pub fn dir_blob_ids(&self) -> Vec<usize> {
        let mut v = Vec::new();
        if let Ok(rd) = std::fs::read_dir(&self.dir) {
            for e in rd.flatten() {
                let p = e.path();
                if p.is_file() && p.extension().and_then(|x| x.to_str()) == Some("blob") {
                    if let Some(id) = crate::tap::blob_id_of(&p) {
                        v.push(id);
                    }
                }
            }
        }
        v.sort();
        v
    }

    /// id of the blob that is active in the real storage, observed through the I/O tap: an explicit
    /// fsyncdata() syncs exactly the active blob's file (the tap must be armed for `self.dir`)
    pub async fn probe_active_id(&mut self) -> Option<usize> {
        if !self.st().has_active_blob().await {
            return None;
        }
        let before = pearl::verif::tap::count(&self.dir);
        let _ = self.st().fsyncdata().await;
        let ev = pearl::verif::tap::snapshot(&self.dir);
        ev.iter()
            .skip(before)
            .filter(|e| e.kind == pearl::verif::tap::Kind::Sync)
            .filter_map(|e| crate::tap::blob_id_of(&e.path))
            .last()
    }

    /// After a call failed under an injected fault the model does not know the placement: re-read it
    /// from the storage (ids of closed blobs, the active blob's id through the tap). Model blobs
    /// that hold acknowledged records stay in the model even if the storage lost them (a loss then
    /// shows up as a read mismatch); model blobs without records and without a file are dropped.
    pub async fn resync_lifecycle(&mut self) {
        let det = self.st().records_count_detailed().await;
        let active = self.probe_active_id().await;
        let n_closed = if active.is_some() { det.len().saturating_sub(1) } else { det.len() };
        let closed: Vec<usize> = det.iter().take(n_closed).map(|d| d.0).collect();
        let on_disk = self.dir_blob_ids();
        let phantom: Vec<usize> = self.model.blobs.iter().filter(|(id, recs)| recs.is_empty() && !on_disk.contains(id)).map(|(id, _)| *id).collect();
        for id in phantom {
            self.model.blobs.remove(&id);
        }
        for id in closed.iter().chain(active.iter()) {
            if !self.model.blobs.contains_key(id) {
                self.model.blobs.insert(*id, Vec::new());
                self.model.ids_ever.insert(*id);
            }
        }
        self.model.closed = closed;
        self.model.active = active;
        self.model.next_id = self.st().next_blob_id();
    }

    /// true if the current model state is "non-trivial" for C01 / C02 rules
    pub fn nontrivial_c01(&self) -> bool {
        for k in self.model.keys() {
            let ranked = self.model.ranked(k);
            if ranked.len() >= 2 && ranked[0].0.ts == ranked[1].0.ts {
                return true;
            }
            let blobs: std::collections::BTreeSet<usize> = ranked.iter().map(|r| r.1).collect();
            if blobs.len() >= 2 {
                return true;
            }
        }
        false
    }

    pub fn nontrivial_c02(&self) -> bool {
        for k in self.model.keys() {
            let ranked = self.model.ranked(k);
            let blobs: std::collections::BTreeSet<usize> = ranked.iter().map(|r| r.1).collect();
            if blobs.len() >= 2 && ranked.iter().any(|r| r.0.del) {
                return true;
            }
        }
        false
    }

    /// (active present, active blob has an index file, closed blobs (cap 4), closed blobs with index file (cap 4), filter off-loaded)
    pub fn abstract_state(&self) -> u32 {
        let idx = |id: usize| self.dir.join(format!("t.{}.index", id)).exists();
        let a = self.model.active.is_some() as u32;
        let ai = self.model.active.map(|a| idx(a)).unwrap_or(false) as u32;
        let c = self.model.closed.len().min(4) as u32;
        let ci = self.model.closed.iter().filter(|c| idx(**c)).count().min(4) as u32;
        a | (ai << 1) | (c << 2) | (ci << 5) | ((self.offloaded as u32) << 8)
    }

    pub async fn check(&mut self, surface: u32) -> Result<(), Mismatch> {
        let st = self.abstract_state();
        self.stats.abstract_states.insert(st);
        let n = self.cfg.n_keys;
        for k in 0..(n + 2) {
            if self.tainted.contains(&k) {
                continue;
            }
            if k < n {
                self.note_key_shape(k);
            }
            self.check_key(k, surface).await?;
        }
        if surface & (S_COUNTS | S_RECCOUNT) != 0 {
            self.check_counts(surface).await?;
        }
        if surface & S_DISK != 0 {
            self.check_disk_used().await?;
        }
        Ok(())
    }

    pub async fn check_key(&mut self, k: u16, surface: u32) -> Result<(), Mismatch> {
        let key = self.key(k);
        let placement = {
            let nb = self.model.blobs_with_key(k).len();
            match nb {
                0 => "absent",
                1 => "1blob",
                2 => "2blobs",
                _ => "3+blobs",
            }
        };
        if surface & S_READ != 0 {
            let exp = self.model.read(k);
            let got = self.st().read(&key).await;
            self.stats.compared += 1;
            match (&got, &exp) {
                (Ok(ReadResult::Found(b)), MRead::Found(r)) if b.as_ref() == Self::expect_bytes(r).as_slice() => {}
                (Ok(ReadResult::Deleted(t)), MRead::Deleted(e)) if tsu(*t) == *e => {}
                (Ok(ReadResult::NotFound), MRead::NotFound) => {}
                (Err(e), _) => {
                    return Err(self.mm(Class::Read, format!("read/err/exp={}/{}", mr_name(&exp), placement), format!("read(k{}) failed: {:#}; model: {:?}", k, e, exp)))
                }
                (Ok(g), _) => {
                    let gd = match g {
                        ReadResult::Found(b) => format!("Found({})", Self::describe_bytes(b)),
                        ReadResult::Deleted(t) => format!("Deleted({})", t),
                        ReadResult::NotFound => "NotFound".into(),
                    };
                    let ed = match &exp {
                        MRead::Found(r) => format!("Found(val#{:x}/{}B ts={})", r.val, r.size, r.ts),
                        o => format!("{:?}", o),
                    };
                    return Err(self.mm(Class::Read, format!("read/got={}/exp={}/{}", rr_name(g), mr_name(&exp), placement), format!("read(k{}) = {}, model {}", k, gd, ed)));
                }
            }
        }
        if surface & S_CONTAINS != 0 {
            let exp = self.model.read(k);
            let got = self.st().contains(&key).await;
            self.stats.compared += 1;
            let ok = match (&got, &exp) {
                (Ok(ReadResult::Found(t)), MRead::Found(r)) => tsu(*t) == r.ts,
                (Ok(ReadResult::Deleted(t)), MRead::Deleted(e)) => tsu(*t) == *e,
                (Ok(ReadResult::NotFound), MRead::NotFound) => true,
                _ => false,
            };
            if !ok {
                let gn = match &got {
                    Ok(g) => rr_name(g),
                    Err(_) => "err",
                };
                return Err(self.mm(Class::Contains, format!("contains/got={}/exp={}/{}", gn, mr_name(&exp), placement), format!("contains(k{}) = {:?}, model {:?}", k, got.as_ref().map_err(|e| format!("{:#}", e)), exp)));
            }
        }
        if surface & S_LISTS != 0 {
            let exp_m = self.model.list_with_marker(k);
            let got = self.st().read_all_with_deletion_marker(&key).await;
            self.stats.compared += 1;
            self.compare_list(k, "read_all_with_deletion_marker", got, &exp_m, placement).await?;
            let exp = self.model.list(k);
            let got = self.st().read_all(&key).await;
            self.stats.compared += 1;
            self.compare_list(k, "read_all", got, &exp, placement).await?;
        }
        if surface & S_READ_WITH != 0 {
            for m in 0..=self.cfg.n_meta {
                let exp = self.model.read_with(k, m);
                let got = self.st().read_with(&key, &meta_of(m)).await;
                self.stats.compared += 1;
                let ok = match (&got, &exp) {
                    (Ok(ReadResult::Found(b)), MRead::Found(r)) => b.as_ref() == Self::expect_bytes(r).as_slice(),
                    (Ok(ReadResult::Deleted(t)), MRead::Deleted(e)) => tsu(*t) == *e,
                    (Ok(ReadResult::NotFound), MRead::NotFound) => true,
                    _ => false,
                };
                if !ok {
                    let gn = match &got {
                        Ok(g) => rr_name(g),
                        Err(_) => "err",
                    };
                    let gd = match &got {
                        Ok(ReadResult::Found(b)) => format!("Found({})", Self::describe_bytes(b)),
                        Ok(o) => format!("{:?}", o),
                        Err(e) => format!("Err({:#})", e),
                    };
                    return Err(self.mm(Class::ReadWith, format!("read_with/got={}/exp={}/{}", gn, mr_name(&exp), placement), format!("read_with(k{}, meta{}) = {}, model {:?}", k, m, gd, exp)));
                }
            }
        }
        if surface & S_FILTERS != 0 && !self.model.blobs_with_key(k).is_empty() {
            self.stats.filter_checks += 1;
            if self.st().check_filters(&key).await == Some(false) {
                return Err(self.mm(Class::Filters, "check_filters/false-negative", format!("check_filters(k{}) = Some(false) but the key is stored in blobs {:?}", k, self.model.blobs_with_key(k))));
            }
            if BloomProvider::check_filter(self.st(), &key).await == FilterResult::NotContains {
                return Err(self.mm(Class::Filters, "check_filter/false-negative", format!("BloomProvider::check_filter(k{}) = NotContains but the key is stored in blobs {:?}", k, self.model.blobs_with_key(k))));
            }
            // the merged storage-level filter covers closed blobs (+ active when mergeable)
            if let Some(f) = BloomProvider::get_filter(self.st()).await {
                use pearl::filter::FilterTrait;
                let in_closed = self.model.blobs_with_key(k).iter().any(|b| self.model.closed.contains(b));
                if in_closed && f.contains_fast(&key) == FilterResult::NotContains {
                    return Err(self.mm(Class::Filters, "get_filter/false-negative", format!("Storage::get_filter() says NotContains for k{} stored in a closed blob", k)));
                }
            }
        }
        Ok(())
    }

    async fn compare_list(&mut self, k: u16, api: &str, got: anyhow::Result<Vec<pearl::Entry>>, exp: &[Rec], placement: &str) -> Result<(), Mismatch> {
        let got = match got {
            Ok(g) => g,
            Err(e) => return Err(self.mm(Class::Lists, format!("{}/err/{}", api, placement), format!("{}(k{}) failed: {:#}", api, k, e))),
        };
        let mut got_desc: Vec<(u64, bool, Vec<u8>, Option<Meta>)> = Vec::new();
        let whole_record = self.step % 2 == 1;
        for mut e in got {
            let ts: u64 = e.timestamp().into();
            let del = e.is_deleted();
            if whole_record {
                // on odd steps the entry is loaded as a whole record (Entry::load, nothing cached before), on even
                // steps through load_data + load_meta
                match e.load().await {
                    Ok(rec) => {
                        let meta = rec.meta().clone();
                        got_desc.push((ts, del, rec.into_data().to_vec(), Some(meta)));
                        continue;
                    }
                    Err(err) => return Err(self.mm(Class::Lists, format!("{}/load-err/{}", api, placement), format!("{}(k{}): Entry::load failed: {:#}", api, k, err))),
                }
            }
            let data = match e.load_data().await {
                Ok(d) => d.to_vec(),
                Err(err) => return Err(self.mm(Class::Lists, format!("{}/load_data-err/{}", api, placement), format!("{}(k{}): load_data failed: {:#}", api, k, err))),
            };
            let meta = match e.load_meta().await {
                Ok(m) => m.cloned(),
                Err(err) => return Err(self.mm(Class::Lists, format!("{}/load_meta-err/{}", api, placement), format!("{}(k{}): load_meta failed: {:#}", api, k, err))),
            };
            got_desc.push((ts, del, data, meta));
        }
        let exp_desc: Vec<(u64, bool, Vec<u8>, Option<Meta>)> = exp
            .iter()
            .map(|r| (r.ts, r.del, if r.del { Vec::new() } else { Self::expect_bytes(r) }, Some(meta_of(r.meta))))
            .collect();
        if got_desc != exp_desc {
            let kind = if got_desc.len() > exp_desc.len() {
                "longer"
            } else if got_desc.len() < exp_desc.len() {
                "shorter"
            } else if got_desc.iter().zip(exp_desc.iter()).all(|(a, b)| a.0 == b.0 && a.1 == b.1) {
                "same-shape-wrong-record"
            } else {
                "order"
            };
            let fmt = |l: &Vec<(u64, bool, Vec<u8>, Option<Meta>)>| -> String {
                l.iter()
                    .map(|(ts, del, d, m)| format!("(ts={} {} {} meta={:?})", ts, if *del { "DEL" } else { "put" }, Self::describe_bytes(d), m))
                    .collect::<Vec<_>>()
                    .join(", ")
            };
            return Err(self.mm(Class::Lists, format!("{}/{}/{}", api, kind, placement), format!("{}(k{}) = [{}], model [{}]", api, k, fmt(&got_desc), fmt(&exp_desc))));
        }
        Ok(())
    }

    pub async fn check_counts(&mut self, surface: u32) -> Result<(), Mismatch> {
        self.stats.compared += 1;
        let rc = self.st().records_count().await;
        if rc != self.model.records_count() {
            let class = if surface & S_COUNTS != 0 { Class::Counts } else { Class::DupPolicy };
            let rel = if rc > self.model.records_count() { "more" } else { "fewer" };
            return Err(self.mm(class, format!("records_count/{}", rel), format!("records_count() = {}, model {}", rc, self.model.records_count())));
        }
        if surface & S_COUNTS == 0 {
            return Ok(());
        }
        let det = self.st().records_count_detailed().await;
        let (closed, active) = self.model.records_detailed();
        let mut exp_counts: Vec<usize> = closed.iter().map(|c| c.1).collect();
        if let Some(a) = active {
            exp_counts.push(a);
        }
        let got_counts: Vec<usize> = det.iter().map(|d| d.1).collect();
        if got_counts != exp_counts {
            return Err(self.mm(Class::Counts, "records_count_detailed/counts", format!("records_count_detailed() = {:?}, model closed {:?} active {:?}", det, closed, active)));
        }
        let got_closed_ids: Vec<usize> = det.iter().take(closed.len()).map(|d| d.0).collect();
        let exp_closed_ids: Vec<usize> = closed.iter().map(|c| c.0).collect();
        if got_closed_ids != exp_closed_ids {
            return Err(self.mm(Class::Counts, "records_count_detailed/ids", format!("records_count_detailed() = {:?}, model closed {:?}", det, closed)));
        }
        let ia = self.st().records_count_in_active_blob().await;
        if ia != active {
            return Err(self.mm(Class::Counts, "records_count_in_active_blob", format!("records_count_in_active_blob() = {:?}, model {:?}", ia, active)));
        }
        let bc = self.st().blobs_count().await;
        if bc != self.model.blobs_count() {
            let sc = if self.model.active.is_some() { "with-active" } else { "no-active" };
            return Err(self.mm(Class::Counts, format!("blobs_count/{}", sc), format!("blobs_count() = {}, model {} (closed {:?}, active {:?})", bc, self.model.blobs_count(), self.model.closed, self.model.active)));
        }
        let nid = self.st().next_blob_id();
        if nid != self.model.next_id {
            return Err(self.mm(Class::Counts, "next_blob_id", format!("next_blob_id() = {}, model {}", nid, self.model.next_id)));
        }
        let cb = self.st().corrupted_blobs_count();
        if cb != self.model.corrupted {
            return Err(self.mm(Class::Counts, "corrupted_blobs_count", format!("corrupted_blobs_count() = {}, model {}", cb, self.model.corrupted)));
        }
        Ok(())
    }

    /// directory listing: (sum of blob file sizes, sum of blob + index file sizes)
    pub fn dir_sizes(&self) -> (u64, u64) {
        let mut blobs = 0;
        let mut all = 0;
        if let Ok(rd) = std::fs::read_dir(&self.dir) {
            for e in rd.flatten() {
                let p = e.path();
                if !p.is_file() {
                    continue;
                }
                let len = e.metadata().map(|m| m.len()).unwrap_or(0);
                // blob files the storage skipped at init (ignore_corrupted) are on disk but not "used"
                if crate::tap::blob_id_of(&p).map(|id| self.ignored_ids.contains(&id)).unwrap_or(false) {
                    continue;
                }
                match p.extension().and_then(|x| x.to_str()) {
                    Some("blob") => {
                        blobs += len;
                        all += len;
                    }
                    Some("index") => all += len,
                    _ => {}
                }
            }
        }
        (blobs, all)
    }

    /// `disk_used` bounded by the directory listing (exact equality is checked by C15 at quiescent points)
    pub async fn check_disk_used(&mut self) -> Result<(), Mismatch> {
        self.stats.compared += 1;
        let du = self.st().disk_used().await;
        let (blobs, all) = self.dir_sizes();
        let active_has_index_file = self.model.active.map(|a| self.dir.join(format!("t.{}.index", a)).exists()).unwrap_or(false);
        if self.quiescent && !active_has_index_file {
            // quiescent point: every closed blob was dumped, the active blob has no index file
            self.stats.disk_exact += 1;
            if du != all {
                return Err(self.mm(Class::DiskUsed, "disk_used/quiescent-not-equal-to-files", format!("disk_used() = {} at a quiescent point, blob+index bytes on disk {}", du, all)));
            }
            return Ok(());
        }
        self.stats.disk_bounded += 1;
        if du < blobs || du > all {
            let rel = if du < blobs { "below-blob-bytes" } else { "above-all-files" };
            return Err(self.mm(Class::DiskUsed, format!("disk_used/{}", rel), format!("disk_used() = {}, blob bytes on disk {}, blob+index bytes {}", du, blobs, all)));
        }
        Ok(())
    }
}


/// Loose executor: performs an operation against the storage without a model; results are returned as
/// short strings for logging. Used where the oracle does not depend on answers (C07, C11, C13).
pub struct Loose<const N: usize> {
    pub dir: PathBuf,
    pub cfg: Cfg,
    pub storage: Option<Storage<ArrayKey<N>>>,
    pub next_val: u64,
    pub worker_dead: bool,
}

impl<const N: usize> Loose<N> {
    pub fn new(dir: PathBuf, cfg: Cfg) -> Self {
        Loose { dir, cfg, storage: None, next_val: 1, worker_dead: false }
    }
    pub fn key(&self, k: u16) -> ArrayKey<N> {
        mk_key::<N>(self.cfg.key_salt, k)
    }
    pub async fn open(&mut self, lazy: bool) -> Result<(), String> {
        let mut s: Storage<ArrayKey<N>> = builder_for(&self.cfg, &self.dir).build().map_err(|e| format!("{:#}", e))?;
        let r = if lazy { s.init_lazy().await } else { s.init().await };
        r.map_err(|e| format!("{:#}", e))?;
        self.storage = Some(s);
        self.worker_dead = false;
        Ok(())
    }
    pub async fn close(&mut self) -> Result<(), String> {
        if let Some(s) = self.storage.take() {
            s.close().await.map_err(|e| format!("{:#}", e))?;
        }
        Ok(())
    }
    pub async fn barrier(&mut self) -> bool {
        match self.storage.as_ref() {
            Some(s) => {
                let ok = s.verif_barrier(true).await;
                if !ok {
                    self.worker_dead = true;
                }
                ok
            }
            None => true,
        }
    }
    /// returns Ok(description) or Err(error text) of the API call; Restart only closes and reopens
    pub async fn exec(&mut self, op: &Op) -> Result<String, String> {
        let s = match self.storage.as_ref() {
            Some(s) => s,
            None => return Err("storage not open".into()),
        };
        match op {
            Op::Put { k, ts, meta, size } => {
                let val = self.next_val;
                self.next_val += 1;
                let data = Bytes::from(value_bytes(val, *size));
                let key = self.key(*k);
                let r = match meta {
                    None => s.write(&key, data, BlobRecordTimestamp::new(*ts)).await,
                    Some(m) => s.write_with(&key, data, BlobRecordTimestamp::new(*ts), meta_of(*m)).await,
                };
                r.map(|_| format!("v{}", val)).map_err(|e| format!("{:#}", e))
            }
            Op::Del { k, ts, meta, only_if } => {
                let key = self.key(*k);
                let r = match meta {
                    None => s.delete(&key, BlobRecordTimestamp::new(*ts), *only_if).await,
                    Some(m) => s.delete_with(&key, BlobRecordTimestamp::new(*ts), meta_of(*m), *only_if).await,
                };
                r.map(|n| n.to_string()).map_err(|e| format!("{:#}", e))
            }
            Op::Close => s.try_close_active_blob().await.map(|_| String::new()).map_err(|e| format!("{:#}", e)),
            Op::Create => s.try_create_active_blob().await.map(|_| String::new()).map_err(|e| format!("{:#}", e)),
            Op::Restore => s.try_restore_active_blob().await.map(|_| String::new()).map_err(|e| format!("{:#}", e)),
            Op::CloseBg => {
                s.close_active_blob_in_background().await;
                Ok(String::new())
            }
            Op::CreateBg => {
                s.create_active_blob_in_background().await;
                Ok(String::new())
            }
            Op::RestoreBg => {
                s.restore_active_blob_in_background().await;
                Ok(String::new())
            }
            Op::ForceUpdate { pred } => {
                if *pred {
                    s.force_update_active_blob(|_| true).await;
                } else {
                    s.force_update_active_blob(|_| false).await;
                }
                Ok(String::new())
            }
            Op::Dump | Op::DumpNoWait => {
                let _ = s.free_excess_resources().await;
                Ok(String::new())
            }
            Op::Offload { needed, level } => {
                let s = self.storage.as_mut().unwrap();
                let f = s.offload_buffer(*needed as usize, *level as usize).await;
                Ok(f.to_string())
            }
            Op::Fsync => s.fsyncdata().await.map(|_| String::new()).map_err(|e| e.to_string()),
            Op::Restart { lazy, .. } => {
                self.close().await?;
                self.open(*lazy).await?;
                Ok(String::new())
            }
        }
    }

    /// runs every query of the public surface for keys 0..n (results ignored)
    pub async fn query_all(&self, n: u16) {
        if let Some(s) = self.storage.as_ref() {
            for k in 0..n {
                let key = self.key(k);
                let _ = s.read(&key).await;
                let _ = s.contains(&key).await;
                if let Ok(es) = s.read_all_with_deletion_marker(&key).await {
                    for mut e in es {
                        let _ = e.load_meta().await;
                        let _ = e.load_data().await;
                    }
                }
                let _ = s.read_all(&key).await;
                for m in 0..=self.cfg.n_meta {
                    let _ = s.read_with(&key, &meta_of(m)).await;
                }
                let _ = s.check_filters(&key).await;
                let _ = BloomProvider::check_filter(s, &key).await;
            }
            let _ = s.records_count().await;
            let _ = s.records_count_detailed().await;
            let _ = s.records_count_in_active_blob().await;
            let _ = s.blobs_count().await;
            let _ = s.disk_used().await;
            let _ = s.index_memory().await;
            let _ = s.has_active_blob().await;
            let _ = BloomProvider::get_filter(s).await;
            let _ = BloomProvider::filter_memory_allocated(s).await;
        }
    }
}

/// ids of the blob files in a directory (sorted)
pub fn dir_ids(dir: &Path) -> Vec<usize> {
    let mut v = Vec::new();
    if let Ok(rd) = std::fs::read_dir(dir) {
        for e in rd.flatten() {
            let p = e.path();
            if p.is_file() && p.extension().and_then(|x| x.to_str()) == Some("blob") {
                if let Some(id) = crate::tap::blob_id_of(&p) {
                    v.push(id);
                }
            }
        }
    }
    v.sort();
    v
}

pub enum CloseOutcome {
    Returned(Result<(), String>),
    /// close() did not return although the system was quiescent for the whole period (samples taken)
    HungQuiescent(u64),
    /// close() did not return within the watchdog, but I/O was still happening: inconclusive
    HungBusy,
}

/// `Storage::close` under a timing-free deadlock monitor: while close() is pending, the I/O tap's
/// in-flight counter and event count are sampled; "pending + no I/O in flight + no tap event during
/// all samples over `secs` seconds" is a positive diagnosis of a hang, anything else is inconclusive.
pub async fn close_monitored<const N: usize>(s: Storage<ArrayKey<N>>, dir: &Path, secs: u64) -> CloseOutcome {
    use pearl::verif::tap;
    let own_session = tap::count(dir) == 0;
    if own_session {
        tap::arm(dir, false, true);
    }
    let fut = s.close();
    tokio::pin!(fut);
    let t0 = std::time::Instant::now();
    let mut samples = 0u64;
    let mut busy = false;
    let mut last_events = tap::count(dir);
    let out = loop {
        match tokio::time::timeout(Duration::from_millis(50), &mut fut).await {
            Ok(r) => break CloseOutcome::Returned(r.map_err(|e| format!("{:#}", e))),
            Err(_) => {
                samples += 1;
                let ev = tap::count(dir);
                // the first samples may still see the final dump
                if samples > 20 && (tap::inflight() > 0 || ev != last_events) {
                    busy = true;
                }
                last_events = ev;
                if t0.elapsed() > Duration::from_secs(secs) && samples >= 100 {
                    break if busy { CloseOutcome::HungBusy } else { CloseOutcome::HungQuiescent(samples) };
                }
            }
        }
    };
    if own_session {
        let _ = tap::disarm(dir);
    }
    out
}

pub enum Monitored<T> {
    Returned(T),
    /// the future stayed pending although no file operation started, finished or was in flight for the
    /// whole observation period (number of consecutive quiet samples)
    HungQuiescent(u64),
    /// still pending after the overall watchdog, but file operations kept happening: inconclusive
    HungBusy,
}

/// Runs `fut` under the timing-free hang monitor used for `close()`: every 50 ms the I/O tap's event count
/// and in-flight counter are sampled; "pending, and neither a tap event nor an operation in flight during
/// `quiet_secs` seconds (at least 100 consecutive samples)" is a positive diagnosis of a hang. The tap must
/// be armed for `dir`. pearl's own timers are at most 230 ms here, so a legitimate quiet wait is far shorter.
pub async fn hang_monitored<T>(dir: &Path, quiet_secs: u64, watchdog_secs: u64, fut: impl std::future::Future<Output = T>) -> Monitored<T> {
    use pearl::verif::tap;
    tokio::pin!(fut);
    let t0 = std::time::Instant::now();
    let mut last_change = std::time::Instant::now();
    let mut last_events = tap::count(dir);
    let mut quiet = 0u64;
    loop {
        match tokio::time::timeout(Duration::from_millis(50), &mut fut).await {
            Ok(r) => return Monitored::Returned(r),
            Err(_) => {
                let ev = tap::count(dir);
                if tap::inflight() > 0 || ev != last_events {
                    last_events = ev;
                    last_change = std::time::Instant::now();
                    quiet = 0;
                } else {
                    quiet += 1;
                }
                if quiet >= 100 && last_change.elapsed() > Duration::from_secs(quiet_secs) {
                    return Monitored::HungQuiescent(quiet);
                }
                if t0.elapsed() > Duration::from_secs(watchdog_secs) {
                    return Monitored::HungBusy;
                }
            }
        }
    }
}
