//! Wall-clock fault injection: the binary defines `clock_gettime` itself, so the statically linked libstd
//! (`SystemTime::now`) binds to it. With a zero offset the call goes straight to the C library's function;
//! a non-zero offset is added to CLOCK_REALTIME only (the monotonic clock, i.e. `Instant` and all tokio timers,
//! is never touched). The offset is process-local: nothing outside this process sees it.

use std::sync::atomic::{AtomicI64, AtomicUsize, Ordering};

static OFFSET_S: AtomicI64 = AtomicI64::new(0);
static REAL: AtomicUsize = AtomicUsize::new(0);

type ClockFn = unsafe extern "C" fn(libc::clockid_t, *mut libc::timespec) -> libc::c_int;

/// seconds added to CLOCK_REALTIME from now on (negative = the wall clock steps back)
pub fn set_realtime_offset(seconds: i64) {
    OFFSET_S.store(seconds, Ordering::SeqCst);
}

#[no_mangle]
pub unsafe extern "C" fn clock_gettime(clk: libc::clockid_t, ts: *mut libc::timespec) -> libc::c_int {
    let mut f = REAL.load(Ordering::Relaxed);
    if f == 0 {
        f = libc::dlsym(libc::RTLD_NEXT, b"clock_gettime\0".as_ptr() as *const libc::c_char) as usize;
        REAL.store(f, Ordering::Relaxed);
    }
    let r = if f != 0 {
        let real: ClockFn = std::mem::transmute(f);
        real(clk, ts)
    } else {
        libc::syscall(libc::SYS_clock_gettime, clk, ts) as libc::c_int
    };
    if r == 0 && clk == libc::CLOCK_REALTIME && !ts.is_null() {
        let off = OFFSET_S.load(Ordering::Relaxed);
        if off != 0 {
            (*ts).tv_sec += off;
        }
    }
    r
}
