//! pv - runtime-monitoring harness for qoollo/pearl (see /verif/DESIGN.md)
pub mod checks;
pub mod clock;
pub mod drive;
pub mod evidence;
pub mod model;
pub mod ops;
pub mod parse;
pub mod replay;
pub mod rng;
pub mod runner;
pub mod tap;
