//! Shard results, merging, known findings, evidence files and verdict lines.

use serde_json::{json, Map, Value};
use std::collections::{BTreeMap, BTreeSet};
use std::path::{Path, PathBuf};

pub fn verif_root() -> PathBuf {
    if let Ok(p) = std::env::var("VERIF_ROOT") {
        return PathBuf::from(p);
    }
    // the binary lives in <root>/harness/target/<profile>/pv
    if let Ok(exe) = std::env::current_exe() {
        let mut p = exe.as_path();
        while let Some(parent) = p.parent() {
            if parent.join("properties.jsonl").exists() {
                return parent.to_path_buf();
            }
            p = parent;
        }
    }
    PathBuf::from("/verif")
}

#[derive(Clone, Debug)]
pub struct Known {
    pub property: String,
    pub signature: String,
    pub status: String,
    pub description: String,
}

pub fn load_known() -> Vec<Known> {
    let p = verif_root().join("known_findings.json");
    let mut out = Vec::new();
    if let Ok(s) = std::fs::read_to_string(&p) {
        if let Ok(v) = serde_json::from_str::<Value>(&s) {
            if let Some(a) = v.get("findings").and_then(|x| x.as_array()) {
                for f in a {
                    out.push(Known {
                        property: f.get("property").and_then(|x| x.as_str()).unwrap_or("").to_string(),
                        signature: f.get("signature").and_then(|x| x.as_str()).unwrap_or("").to_string(),
                        status: f.get("status").and_then(|x| x.as_str()).unwrap_or("").to_string(),
                        description: f.get("description").and_then(|x| x.as_str()).unwrap_or("").to_string(),
                    });
                }
            }
        }
    }
    out
}

#[derive(Clone, Debug)]
pub struct Violation {
    pub sig: String,
    pub detail: String,
    pub replay: String,
}

#[derive(Clone, Debug, Default)]
pub struct Shard {
    pub evaluations: u64,
    pub nontrivial: BTreeSet<u64>,
    pub samples: Vec<Value>,
    pub counters: BTreeMap<String, u64>,
    pub violations: Vec<Violation>,
    pub known_hits: BTreeMap<String, (String, u64)>,
    pub inconclusive: Vec<String>,
    pub notes: Vec<String>,
    /// named sets merged by union across shards, reported as `distinct_<name>` counts
    pub sets: BTreeMap<String, BTreeSet<u64>>,
}

static REPLAY_N: std::sync::atomic::AtomicU64 = std::sync::atomic::AtomicU64::new(0);

static PARTIAL_OUT: std::sync::Mutex<Option<std::path::PathBuf>> = std::sync::Mutex::new(None);
static PARTIAL_VIOLATIONS: std::sync::Mutex<Vec<Value>> = std::sync::Mutex::new(Vec::new());

/// the result file of this shard process (set by the runner before the check starts)
pub fn set_partial_out(p: &std::path::Path) {
    if let Ok(mut g) = PARTIAL_OUT.lock() {
        *g = Some(p.to_path_buf());
    }
}

impl Shard {
    pub fn add(&mut self, name: &str, n: u64) {
        *self.counters.entry(name.to_string()).or_insert(0) += n;
    }
    pub fn max(&mut self, name: &str, n: u64) {
        let e = self.counters.entry(name.to_string()).or_insert(0);
        if n > *e {
            *e = n;
        }
    }
    pub fn set_insert(&mut self, name: &str, v: u64) {
        self.sets.entry(name.to_string()).or_default().insert(v);
    }
    pub fn sample(&mut self, v: Value) {
        if self.samples.len() < 3 {
            self.samples.push(v);
        }
    }

    /// Report a violation of `property` with a stable signature. Listed known findings are
    /// counted separately; everything else gets a replay file and is reported.
    pub fn violation(&mut self, known: &[Known], property: &str, seed: u64, sig: &str, detail: &str, replay: Value) {
        let _ = self.violation_known(known, property, seed, sig, detail, replay);
    }

    /// like `violation`; returns true when it matched a listed known finding (exploration may continue)
    pub fn violation_known(&mut self, known: &[Known], property: &str, seed: u64, sig: &str, detail: &str, replay: Value) -> bool {
        if let Some(k) = known.iter().find(|k| k.status == "known" && k.property == property && k.signature == sig) {
            let e = self.known_hits.entry(sig.to_string()).or_insert((k.description.clone(), 0));
            e.1 += 1;
            return true;
        }
        if self.violations.len() >= 20 {
            self.add("violations_not_listed", 1);
            return false;
        }
        let dir = verif_root().join("replays");
        let _ = std::fs::create_dir_all(&dir);
        let n = REPLAY_N.fetch_add(1, std::sync::atomic::Ordering::SeqCst);
        let path = dir.join(format!("{}-{}-{}-{}.json", property, seed, std::process::id(), n));
        let body = json!({"property": property, "signature": sig, "detail": detail, "seed": seed, "replay": replay});
        let _ = std::fs::write(&path, serde_json::to_string_pretty(&body).unwrap_or_default());
        self.violations.push(Violation { sig: sig.to_string(), detail: detail.to_string(), replay: path.to_string_lossy().to_string() });
        // a violation is an observation made: it must survive a shard that later hangs or dies (the parent merges the
        // violations of a partial result file), so the shard's result file is written as soon as there is one
        if let (Ok(out), Ok(mut all)) = (PARTIAL_OUT.lock(), PARTIAL_VIOLATIONS.lock()) {
            if let Some(out) = out.as_ref() {
                all.push(json!({"sig": sig, "detail": detail, "replay": path.to_string_lossy()}));
                let _ = std::fs::write(out, serde_json::to_string(&json!({"partial": true, "violations": *all})).unwrap_or_default());
            }
        }
        false
    }

    pub fn to_json(&self) -> Value {
        json!({
            "evaluations": self.evaluations,
            "nontrivial": self.nontrivial.iter().collect::<Vec<_>>(),
            "samples": self.samples,
            "counters": self.counters,
            "violations": self.violations.iter().map(|v| json!({"sig": v.sig, "detail": v.detail, "replay": v.replay})).collect::<Vec<_>>(),
            "known_hits": self.known_hits.iter().map(|(k, v)| json!({"sig": k, "description": v.0, "count": v.1})).collect::<Vec<_>>(),
            "inconclusive": self.inconclusive,
            "notes": self.notes,
            "sets": self.sets.iter().map(|(k, v)| (k.clone(), json!(v.iter().collect::<Vec<_>>()))).collect::<Map<String, Value>>(),
        })
    }

    pub fn from_json(v: &Value) -> Shard {
        let mut s = Shard::default();
        s.evaluations = v.get("evaluations").and_then(|x| x.as_u64()).unwrap_or(0);
        if let Some(a) = v.get("nontrivial").and_then(|x| x.as_array()) {
            for h in a {
                if let Some(h) = h.as_u64() {
                    s.nontrivial.insert(h);
                }
            }
        }
        if let Some(a) = v.get("samples").and_then(|x| x.as_array()) {
            s.samples = a.clone();
        }
        if let Some(m) = v.get("counters").and_then(|x| x.as_object()) {
            for (k, v) in m {
                s.counters.insert(k.clone(), v.as_u64().unwrap_or(0));
            }
        }
        if let Some(a) = v.get("violations").and_then(|x| x.as_array()) {
            for x in a {
                s.violations.push(Violation {
                    sig: x.get("sig").and_then(|y| y.as_str()).unwrap_or("").to_string(),
                    detail: x.get("detail").and_then(|y| y.as_str()).unwrap_or("").to_string(),
                    replay: x.get("replay").and_then(|y| y.as_str()).unwrap_or("").to_string(),
                });
            }
        }
        if let Some(a) = v.get("known_hits").and_then(|x| x.as_array()) {
            for x in a {
                s.known_hits.insert(
                    x.get("sig").and_then(|y| y.as_str()).unwrap_or("").to_string(),
                    (x.get("description").and_then(|y| y.as_str()).unwrap_or("").to_string(), x.get("count").and_then(|y| y.as_u64()).unwrap_or(0)),
                );
            }
        }
        if let Some(a) = v.get("inconclusive").and_then(|x| x.as_array()) {
            s.inconclusive = a.iter().filter_map(|x| x.as_str().map(|s| s.to_string())).collect();
        }
        if let Some(a) = v.get("notes").and_then(|x| x.as_array()) {
            s.notes = a.iter().filter_map(|x| x.as_str().map(|s| s.to_string())).collect();
        }
        if let Some(m) = v.get("sets").and_then(|x| x.as_object()) {
            for (k, a) in m {
                let set: BTreeSet<u64> = a.as_array().map(|a| a.iter().filter_map(|x| x.as_u64()).collect()).unwrap_or_default();
                s.sets.insert(k.clone(), set);
            }
        }
        s
    }

    pub fn merge(&mut self, o: Shard) {
        self.evaluations += o.evaluations;
        self.nontrivial.extend(o.nontrivial);
        for s in o.samples {
            if self.samples.len() < 4 {
                self.samples.push(s);
            }
        }
        for (k, v) in o.counters {
            if k.starts_with("max_") {
                let e = self.counters.entry(k).or_insert(0);
                if v > *e {
                    *e = v;
                }
            } else {
                *self.counters.entry(k).or_insert(0) += v;
            }
        }
        self.violations.extend(o.violations);
        for (k, v) in o.known_hits {
            let e = self.known_hits.entry(k).or_insert((v.0.clone(), 0));
            e.1 += v.1;
        }
        self.inconclusive.extend(o.inconclusive);
        for (k, v) in o.sets {
            self.sets.entry(k).or_default().extend(v);
        }
        for n in o.notes {
            if self.notes.len() < 20 && !self.notes.contains(&n) {
                self.notes.push(n);
            }
        }
    }
}

pub struct Meta {
    pub property: &'static str,
    pub level: &'static str,
    pub rule: &'static str,
    pub assumptions: Vec<&'static str>,
}

pub fn write_evidence(meta: &Meta, tier: &str, seed: u64, total: &Shard, wall_s: f64, shards_failed: usize, exhaustive: Option<bool>) -> std::io::Result<PathBuf> {
    let dir = verif_root().join("evidence");
    std::fs::create_dir_all(&dir)?;
    let path = dir.join(format!("{}.json", meta.property));
    let mut cov = Map::new();
    cov.insert("evaluations".into(), json!(total.evaluations));
    cov.insert("distinct_nontrivial".into(), json!(total.nontrivial.len()));
    cov.insert("rule".into(), json!(meta.rule));
    cov.insert("samples".into(), Value::Array(total.samples.clone()));
    if let Some(e) = exhaustive {
        cov.insert("exhaustive".into(), json!(e));
    }
    let mut observed = Map::new();
    for (k, v) in total.counters.iter() {
        observed.insert(k.clone(), json!(v));
    }
    for (k, v) in total.sets.iter() {
        observed.insert(format!("distinct_{}", k), json!(v.len()));
    }
    cov.insert("observed".into(), Value::Object(observed));
    cov.insert("shards_failed".into(), json!(shards_failed));
    cov.insert("known_findings_hit".into(), Value::Array(total.known_hits.iter().map(|(k, v)| json!({"signature": k, "count": v.1})).collect()));
    if !total.inconclusive.is_empty() {
        cov.insert("inconclusive".into(), json!(total.inconclusive.iter().take(10).collect::<Vec<_>>()));
    }
    if !total.notes.is_empty() {
        cov.insert("notes".into(), json!(total.notes));
    }
    let body = json!({
        "property_id": meta.property,
        "tier": tier,
        "seed": seed,
        "level": meta.level,
        "coverage": Value::Object(cov),
        "assumptions": meta.assumptions,
        "wall_s": (wall_s * 100.0).round() / 100.0,
        "violations": total.violations.len(),
    });
    std::fs::write(&path, serde_json::to_string_pretty(&body).unwrap_or_default())?;
    Ok(path)
}

pub fn read_json(p: &Path) -> Option<Value> {
    let s = std::fs::read_to_string(p).ok()?;
    serde_json::from_str(&s).ok()
}
