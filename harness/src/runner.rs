//! Sharded execution: the parent spawns short child processes, merges their results, writes
//! evidence and prints the verdict. Also: scratch directories, runtimes, panic capture.

use crate::evidence::{self, Known, Meta, Shard};
use serde_json::Value;
use std::path::PathBuf;
use std::sync::atomic::{AtomicU64, Ordering};
use std::sync::Mutex;
use std::time::{Duration, Instant};

#[derive(Clone, Debug)]
pub struct Ctx {
    pub property: String,
    pub tier: String,
    pub seed: u64,
    pub shard: usize,
    pub shards: usize,
    pub deadline: Instant,
    pub known: Vec<Known>,
}

impl Ctx {
    pub fn thorough(&self) -> bool {
        self.tier == "thorough"
    }
    pub fn time_left(&self) -> bool {
        Instant::now() < self.deadline
    }
    pub fn shard_seed(&self) -> u64 {
        crate::rng::mix(self.seed, 0x5348_0000 + self.shard as u64)
    }
}

pub struct Plan {
    pub meta: Meta,
    pub shards: usize,
    /// soft per-shard time budget in seconds (quick, thorough)
    pub soft_s: (u64, u64),
    pub exhaustive: Option<bool>,
    /// minimal number of evaluations below which the run is inconclusive
    pub min_evaluations: u64,
    /// single-process extra monitors run by the parent after the shards (sanitizers, Miri, strace)
    pub extra: Option<fn(&str, u64, &mut Shard)>,
}

static PANICS: Mutex<Vec<String>> = Mutex::new(Vec::new());

pub fn install_panic_hook() {
    std::panic::set_hook(Box::new(|info| {
        let msg = if let Some(s) = info.payload().downcast_ref::<&str>() {
            s.to_string()
        } else if let Some(s) = info.payload().downcast_ref::<String>() {
            s.clone()
        } else {
            "<non-string panic>".to_string()
        };
        let loc = info.location().map(|l| format!("{}:{}", l.file(), l.line())).unwrap_or_default();
        if let Ok(mut p) = PANICS.lock() {
            if p.len() < 64 {
                p.push(format!("{} @ {}", msg, loc));
            }
        }
    }));
}

pub fn take_panics() -> Vec<String> {
    PANICS.lock().map(|mut p| std::mem::take(&mut *p)).unwrap_or_default()
}

static DIR_N: AtomicU64 = AtomicU64::new(0);

pub fn scratch_base() -> PathBuf {
    let shm = PathBuf::from("/dev/shm");
    let base = if shm.is_dir() && std::fs::metadata(&shm).map(|m| !m.permissions().readonly()).unwrap_or(false) {
        shm
    } else {
        std::env::temp_dir()
    };
    base.join(format!("pv-{}", std::process::id()))
}

/// Fresh scratch directory (created); remove with `rm_dir`
pub fn new_dir(tag: &str) -> PathBuf {
    let n = DIR_N.fetch_add(1, Ordering::SeqCst);
    let d = scratch_base().join(format!("{}{}", tag, n));
    let _ = std::fs::remove_dir_all(&d);
    std::fs::create_dir_all(&d).expect("create scratch dir");
    d
}

pub fn rm_dir(d: &std::path::Path) {
    let _ = std::fs::remove_dir_all(d);
}

pub fn cleanup_scratch() {
    let _ = std::fs::remove_dir_all(scratch_base());
}

pub fn runtime(mt: bool) -> tokio::runtime::Runtime {
    if mt {
        tokio::runtime::Builder::new_multi_thread()
            .worker_threads(2)
            .max_blocking_threads(64)
            .enable_all()
            .build()
            .expect("runtime")
    } else {
        tokio::runtime::Builder::new_current_thread()
            .max_blocking_threads(64)
            .enable_all()
            .build()
            .expect("runtime")
    }
}

/// Runs a future on a fresh runtime, catching panics of the calling task.
pub fn block_on_catch<F, T>(mt: bool, fut: F) -> Result<T, String>
where
    F: std::future::Future<Output = T>,
{
    let rt = runtime(mt);
    let r = std::panic::catch_unwind(std::panic::AssertUnwindSafe(|| rt.block_on(fut)));
    rt.shutdown_timeout(Duration::from_millis(200));
    match r {
        Ok(v) => Ok(v),
        Err(_) => {
            let p = take_panics();
            Err(p.last().cloned().unwrap_or_else(|| "panic".to_string()))
        }
    }
}

pub fn seed_from_env() -> u64 {
    std::env::var("VERIF_SEED").ok().and_then(|s| s.trim().parse::<u64>().ok()).unwrap_or(20260925)
}

/// Parent side: spawn shards, merge, evidence, verdict. Returns the process exit code.
pub fn run_parent(plan: &Plan, tier: &str) -> i32 {
    let seed = seed_from_env();
    let t0 = Instant::now();
    let exe = std::env::current_exe().expect("current exe");
    let out_dir = scratch_base().join("shards");
    let _ = std::fs::create_dir_all(&out_dir);
    let soft = if tier == "thorough" { plan.soft_s.1 } else { plan.soft_s.0 };
    let hard = Duration::from_secs(soft * 4 + 120);
    let mut children = Vec::new();
    for i in 0..plan.shards {
        let out = out_dir.join(format!("{}-{}.json", plan.meta.property, i));
        let _ = std::fs::remove_file(&out);
        let child = std::process::Command::new(&exe)
            .arg("shard")
            .arg(plan.meta.property)
            .arg(tier)
            .arg(seed.to_string())
            .arg(i.to_string())
            .arg(plan.shards.to_string())
            .arg(soft.to_string())
            .arg(&out)
            .stdin(std::process::Stdio::null())
            .spawn();
        match child {
            Ok(c) => children.push((i, Some(c), out)),
            Err(e) => {
                eprintln!("cannot spawn shard {}: {}", i, e);
                children.push((i, None, out));
            }
        }
    }
    let mut total = Shard::default();
    let mut failed = 0usize;
    let mut fail_reasons: Vec<String> = Vec::new();
    for (i, child, out) in children.iter_mut() {
        let mut ok = false;
        if let Some(c) = child.as_mut() {
            loop {
                match c.try_wait() {
                    Ok(Some(st)) => {
                        ok = st.success();
                        if !ok {
                            fail_reasons.push(format!("shard {} exited with {:?}", i, st));
                        }
                        break;
                    }
                    Ok(None) => {
                        if t0.elapsed() > hard {
                            let _ = c.kill();
                            let _ = c.wait();
                            fail_reasons.push(format!("shard {} hit the watchdog ({:?})", i, hard));
                            break;
                        }
                        std::thread::sleep(Duration::from_millis(20));
                    }
                    Err(e) => {
                        fail_reasons.push(format!("shard {} wait error {}", i, e));
                        break;
                    }
                }
            }
        }
        match evidence::read_json(out) {
            Some(v) if ok => total.merge(Shard::from_json(&v)),
            Some(v) => {
                // partial result of a failed shard still counts for violations it found
                let s = Shard::from_json(&v);
                total.violations.extend(s.violations);
                failed += 1;
            }
            None => failed += 1,
        }
        let _ = std::fs::remove_file(&*out);
    }
    if let Some(extra) = plan.extra {
        extra(tier, seed, &mut total);
    }
    cleanup_scratch();
    let wall = t0.elapsed().as_secs_f64();
    for r in fail_reasons.iter() {
        total.notes.push(r.clone());
    }
    let ev = evidence::write_evidence(&plan.meta, tier, seed, &total, wall, failed, plan.exhaustive);
    verdict(plan, tier, seed, &total, failed, wall, ev.ok())
}

pub fn verdict(plan: &Plan, tier: &str, seed: u64, total: &Shard, failed: usize, wall: f64, ev: Option<PathBuf>) -> i32 {
    let id = plan.meta.property;
    println!(
        "{} {} seed={} evaluations={} distinct_nontrivial={} shards_failed={} wall={:.1}s",
        id,
        tier,
        seed,
        total.evaluations,
        total.nontrivial.len(),
        failed,
        wall
    );
    let mut keys: Vec<&String> = total.counters.keys().collect();
    keys.sort();
    let mut line: Vec<String> = keys.iter().map(|k| format!("{}={}", k, total.counters[*k])).collect();
    for (k, v) in total.sets.iter() {
        line.push(format!("distinct_{}={}", k, v.len()));
    }
    println!("  observed: {}", line.join(" "));
    for n in total.notes.iter().take(8) {
        println!("  note: {}", n);
    }
    for (sig, (desc, n)) in total.known_hits.iter() {
        println!("KNOWN-FINDING: property={} {} [{}] (seen {}x in this run)", id, desc, sig, n);
    }
    if !total.violations.is_empty() {
        let mut seen = std::collections::BTreeSet::new();
        for v in total.violations.iter() {
            if seen.insert(v.sig.clone()) {
                println!("VIOLATION property={} replay={}", id, v.replay);
                println!("  signature: {}", v.sig);
                println!("  detail: {}", v.detail);
            }
        }
        return 1;
    }
    let inconclusive = total.evaluations < plan.min_evaluations || failed * 2 > plan.shards || total.nontrivial.len() < 2 || ev.is_none();
    if inconclusive {
        println!(
            "INCONCLUSIVE property={} evaluations={} nontrivial={} shards_failed={} {}",
            id,
            total.evaluations,
            total.nontrivial.len(),
            failed,
            total.inconclusive.first().cloned().unwrap_or_default()
        );
        return 2;
    }
    if !total.inconclusive.is_empty() {
        println!("  inconclusive cases (not counted as held): {} e.g. {}", total.inconclusive.len(), total.inconclusive[0]);
    }
    println!("HELD property={} on everything explored", id);
    0
}

/// Child side entry: runs `f` and writes the shard file.
pub fn run_child<F: FnOnce(&Ctx) -> Shard>(args: &[String], f: F) -> i32 {
    // args: property tier seed shard shards soft_s out
    if args.len() < 7 {
        eprintln!("bad shard args");
        return 2;
    }
    install_panic_hook();
    evidence::set_partial_out(std::path::Path::new(&args[6]));
    let soft: u64 = args[5].parse().unwrap_or(30);
    let ctx = Ctx {
        property: args[0].clone(),
        tier: args[1].clone(),
        seed: args[2].parse().unwrap_or(0),
        shard: args[3].parse().unwrap_or(0),
        shards: args[4].parse().unwrap_or(1),
        deadline: Instant::now() + Duration::from_secs(soft),
        known: evidence::load_known(),
    };
    // a panic that escapes a check (outside the calls it monitors itself) must not turn the whole shard into
    // "no result": if it was raised inside pearl's own sources on an input the storage or the tools
    // produced themselves, it is a violation; anywhere else (harness, third-party crate) it is a harness error: inconclusive
    let known = ctx.known.clone();
    let (property, seed) = (ctx.property.clone(), ctx.seed);
    let shard = match std::panic::catch_unwind(std::panic::AssertUnwindSafe(|| f(&ctx))) {
        Ok(s) => s,
        Err(_) => {
            let panics = take_panics();
            let last = panics.last().cloned().unwrap_or_default();
            let loc = last.rsplit(" @ ").next().unwrap_or("").to_string();
            let mut sh = Shard::default();
            // the panic hook records the source location: pearl's sources are compiled from <repo>/src/...
            let repo = std::env::var("VERIF_REPO").unwrap_or_else(|_| "/repo".to_string());
            if loc.starts_with(&format!("{}/src/", repo.trim_end_matches('/'))) {
                sh.violation(&known, &property, seed, &format!("{}/panic-outside-monitored-call", property.to_uppercase()), &format!("the check was aborted by a panic raised in pearl's sources: {:?}", panics), serde_json::json!({"check": "escaped-panic", "panics": panics}));
            } else {
                sh.inconclusive.push(format!("the check was aborted by a panic outside pearl's sources: {:?}", panics));
            }
            sh
        }
    };
    cleanup_scratch();
    let body: Value = shard.to_json();
    if std::fs::write(&args[6], serde_json::to_string(&body).unwrap_or_default()).is_err() {
        return 2;
    }
    0
}
