//! Consumers of the H1 I/O tap: per-file reconstruction, sync-discipline and no-harm trace
//! checkers, power-loss state builder.

use pearl::verif::tap::{Event, Kind};
use std::collections::BTreeMap;
use std::path::{Path, PathBuf};

pub fn ext_of(p: &Path) -> &str {
    p.extension().and_then(|x| x.to_str()).unwrap_or("")
}

pub fn blob_id_of(p: &Path) -> Option<usize> {
    let stem = p.file_stem()?.to_str()?;
    stem.splitn(2, '.').nth(1)?.parse().ok()
}

#[derive(Clone, Debug)]
pub struct WriteRec {
    pub seq: u64,
    /// where the bytes landed (append position for O_APPEND files)
    pub pos: u64,
    /// offset pearl asked for
    pub asked: u64,
    pub data: Vec<u8>,
    pub ok: bool,
    pub short_written: u64,
}

#[derive(Clone, Debug, Default)]
pub struct FileLog {
    pub path: PathBuf,
    /// content when the file was first seen (existing file opened) - empty for created files
    pub initial: Vec<u8>,
    pub created_seq: Option<u64>,
    pub writes: Vec<WriteRec>,
    /// (seq, file length covered by this sync)
    pub syncs: Vec<(u64, u64)>,
    pub len: u64,
    pub synced_len: u64,
    pub removed_seq: Option<u64>,
    pub renamed_to: Option<(u64, PathBuf)>,
}

impl FileLog {
    /// file content after applying all writes with seq <= upto
    pub fn content_at(&self, upto: u64) -> Vec<u8> {
        let mut c = self.initial.clone();
        for w in self.writes.iter().filter(|w| w.seq <= upto) {
            let n = if w.ok { w.data.len() } else { w.short_written as usize };
            if n == 0 {
                continue;
            }
            let end = w.pos as usize + n;
            if c.len() < end {
                c.resize(end, 0);
            }
            c[w.pos as usize..end].copy_from_slice(&w.data[..n]);
        }
        c
    }
    /// length guaranteed durable after the events with seq <= upto
    pub fn synced_at(&self, upto: u64) -> u64 {
        let mut s = self.initial.len() as u64;
        // a created file has nothing durable until its first sync
        if self.created_seq.is_some() {
            s = 0;
        }
        for (seq, l) in self.syncs.iter() {
            if *seq <= upto {
                s = s.max(*l);
            }
        }
        s
    }
    pub fn exists_at(&self, upto: u64) -> bool {
        match self.created_seq {
            Some(c) => c <= upto && self.removed_seq.map(|r| r > upto).unwrap_or(true),
            None => self.removed_seq.map(|r| r > upto).unwrap_or(true),
        }
    }
}

#[derive(Clone, Debug)]
pub struct TraceViolation {
    pub rule: String,
    pub detail: String,
    pub seq: u64,
}

/// Incremental consumer of tap events
#[derive(Debug, Default)]
pub struct Trace {
    pub files: BTreeMap<PathBuf, FileLog>,
    pub violations: Vec<TraceViolation>,
    pub events_seen: u64,
    pub writes_seen: u64,
    pub syncs_seen: u64,
    pub index_headers_checked: u64,
    pub blob_creations: u64,
    pub last_seq: u64,
    /// C07 rule state: ids ever used by a blob file in the work dir
    pub ids_ever: std::collections::BTreeSet<usize>,
    pub check_c12: bool,
    pub check_c07: bool,
    pub corrupted_dir: Option<PathBuf>,
}

impl Trace {
    pub fn new(check_c12: bool, check_c07: bool) -> Self {
        Trace { check_c12, check_c07, ..Default::default() }
    }

    fn file(&mut self, p: &Path) -> &mut FileLog {
        if !self.files.contains_key(p) {
            // first sight of an existing file: take its current content as initial (callers feed
            // events promptly, before later writes land, or pre-register files with `seed_file`)
            let mut fl = FileLog { path: p.to_path_buf(), ..Default::default() };
            fl.initial = Vec::new();
            self.files.insert(p.to_path_buf(), fl);
        }
        self.files.get_mut(p).unwrap()
    }

    /// register an existing file (content known, fully durable) before its events arrive
    pub fn seed_file(&mut self, p: &Path, content: Vec<u8>) {
        let len = content.len() as u64;
        if let Some(id) = blob_id_of(p) {
            if ext_of(p) == "blob" {
                self.ids_ever.insert(id);
            }
        }
        self.files.insert(p.to_path_buf(), FileLog { path: p.to_path_buf(), initial: content, len, synced_len: len, ..Default::default() });
    }

    pub fn seed_dir(&mut self, dir: &Path) {
        if let Ok(rd) = std::fs::read_dir(dir) {
            for e in rd.flatten() {
                let p = e.path();
                if p.is_file() {
                    if let Ok(c) = std::fs::read(&p) {
                        self.seed_file(&p, c);
                    }
                }
            }
        }
    }

    fn violate(&mut self, rule: &str, detail: String, seq: u64) {
        if self.violations.len() < 16 {
            self.violations.push(TraceViolation { rule: rule.to_string(), detail, seq });
        }
    }

    pub fn feed(&mut self, events: &[Event]) {
        for e in events {
            self.feed_one(e);
        }
    }

    fn feed_one(&mut self, e: &Event) {
        self.events_seen += 1;
        self.last_seq = e.seq;
        let path: PathBuf = e.path.as_ref().clone();
        let ext = ext_of(&path).to_string();
        let in_corrupted = self.corrupted_dir.as_ref().map(|c| path.starts_with(c)).unwrap_or(false);
        match e.kind {
            Kind::Create => {
                if !e.ok {
                    return;
                }
                let existed = e.len_before != u64::MAX;
                if ext == "blob" {
                    self.blob_creations += 1;
                    if self.check_c07 {
                        if existed && e.len_before > 0 {
                            self.violate("c07/create-existing-blob", format!("blob file {} re-created (create) although it already holds bytes", path.display()), e.seq);
                        }
                        if let Some(id) = blob_id_of(&path) {
                            if !self.ids_ever.insert(id) {
                                self.violate("c07/blob-id-reused", format!("blob id {} assigned to a new blob although a file with this id was present before", id), e.seq);
                            }
                        }
                    }
                }
                if !existed {
                    let fl = self.file(&path);
                    fl.created_seq = Some(e.seq);
                    fl.initial.clear();
                    fl.len = 0;
                    fl.synced_len = 0;
                    fl.removed_seq = None;
                    fl.renamed_to = None;
                    fl.writes.clear();
                    fl.syncs.clear();
                }
            }
            Kind::Open => {
                if ext == "blob" {
                    if let Some(id) = blob_id_of(&path) {
                        self.ids_ever.insert(id);
                    }
                }
            }
            Kind::Truncate => {
                if self.check_c07 && ext == "blob" {
                    self.violate("c07/truncate-blob", format!("blob file {} truncated", path.display()), e.seq);
                }
                let fl = self.file(&path);
                // index re-creation: the old content is gone
                fl.initial.clear();
                fl.writes.clear();
                fl.syncs.clear();
                fl.created_seq = Some(e.seq);
                fl.len = 0;
                fl.synced_len = 0;
            }
            Kind::Write | Kind::WriteAt => {
                self.writes_seen += 1;
                let mut data: Vec<u8> = Vec::with_capacity(e.len as usize);
                for s in e.data.iter() {
                    data.extend_from_slice(s);
                }
                let check_c07 = self.check_c07;
                let check_c12 = self.check_c12;
                let (prev_len, header_synced) = {
                    let fl = self.file(&path);
                    (fl.len, fl.synced_len >= 20)
                };
                let appended = e.len_before != u64::MAX && e.len_after != u64::MAX && e.len_after == e.len_before + e.len;
                let pos = if e.kind == Kind::Write && appended { e.len_before } else { e.offset };
                if ext == "blob" && (e.ok || e.short_written > 0) {
                    if check_c07 {
                        if e.kind == Kind::WriteAt {
                            self.violate("c07/positional-rewrite-of-blob", format!("write_all_at({}, {} bytes) on blob {}", e.offset, e.len, path.display()), e.seq);
                        } else if pos < prev_len {
                            self.violate("c07/write-below-end", format!("write at {} ({} bytes) into blob {} whose stored bytes end at {}", pos, e.len, path.display(), prev_len), e.seq);
                        }
                        if in_corrupted {
                            self.violate("c07/write-to-quarantined", format!("write to quarantined file {}", path.display()), e.seq);
                        }
                    }
                    if check_c12 && pos >= 20 && !header_synced {
                        self.violate("c12/record-before-header-sync", format!("record bytes written at {} into {} before a sync covered the blob header", pos, path.display()), e.seq);
                    }
                }
                if ext == "index" && e.kind == Kind::WriteAt && e.offset == 0 && data.len() >= 83 && check_c12 {
                    let written = data[72] & 1 == 1;
                    let blob_size = u64::from_le_bytes(data[75..83].try_into().unwrap());
                    if written {
                        self.index_headers_checked += 1;
                        let bp = path.with_extension("blob");
                        let synced = self.files.get(&bp).map(|f| f.synced_len).unwrap_or(0);
                        if blob_size > synced {
                            self.violate("c12/index-complete-before-blob-synced", format!("index {} marked complete for blob size {} while only {} bytes of the blob were synced", path.display(), blob_size, synced), e.seq);
                        }
                    }
                }
                let fl = self.file(&path);
                if e.kind == Kind::Write {
                    if e.ok {
                        fl.len = fl.len.max(pos + e.len);
                        if e.len_after != u64::MAX {
                            fl.len = fl.len.max(e.len_after);
                        }
                    } else if e.short_written > 0 {
                        fl.len = fl.len.max(pos + e.short_written);
                    }
                }
                fl.writes.push(WriteRec { seq: e.seq, pos, asked: e.offset, data, ok: e.ok, short_written: e.short_written });
            }
            Kind::Sync => {
                self.syncs_seen += 1;
                if e.ok {
                    let fl = self.file(&path);
                    let covered = if e.len_before != u64::MAX { e.len_before } else { fl.len };
                    fl.synced_len = fl.synced_len.max(covered);
                    fl.syncs.push((e.seq, covered));
                }
            }
            Kind::Read => {}
            Kind::Rename => {
                if !e.ok {
                    return;
                }
                let target = e.path2.clone().unwrap_or_default();
                if self.check_c07 && ext == "blob" {
                    let into_corrupted = self.corrupted_dir.as_ref().map(|c| target.starts_with(c)).unwrap_or(false);
                    if !into_corrupted {
                        self.violate("c07/rename-blob-elsewhere", format!("blob {} renamed to {}", path.display(), target.display()), e.seq);
                    }
                    if e.target_existed {
                        self.violate("c07/rename-over-existing", format!("blob {} renamed over existing file {}", path.display(), target.display()), e.seq);
                    }
                }
                if let Some(mut fl) = self.files.remove(&path) {
                    fl.renamed_to = Some((e.seq, target.clone()));
                    let mut moved = fl.clone();
                    moved.path = target.clone();
                    moved.renamed_to = None;
                    self.files.insert(target, moved);
                }
            }
            Kind::Remove => {
                if !e.ok {
                    return;
                }
                if self.check_c07 && ext == "blob" {
                    self.violate("c07/remove-blob", format!("blob file {} removed", path.display()), e.seq);
                }
                let seq = e.seq;
                self.file(&path).removed_seq = Some(seq);
            }
        }
    }

    pub fn dirty(&self, p: &Path) -> Option<u64> {
        self.files.get(p).map(|f| f.len.saturating_sub(f.synced_len))
    }
}
