//! Small deterministic PRNG (splitmix64 seeding + xoshiro256**). Generators are pure functions of the seed.

#[derive(Clone, Debug)]
pub struct Rng {
    s: [u64; 4],
}

pub fn splitmix(x: &mut u64) -> u64 {
    *x = x.wrapping_add(0x9E37_79B9_7F4A_7C15);
    let mut z = *x;
    z = (z ^ (z >> 30)).wrapping_mul(0xBF58_476D_1CE4_E5B9);
    z = (z ^ (z >> 27)).wrapping_mul(0x94D0_49BB_1331_11EB);
    z ^ (z >> 31)
}

pub fn mix(a: u64, b: u64) -> u64 {
    let mut x = a ^ b.wrapping_mul(0x9E37_79B9_7F4A_7C15).rotate_left(17);
    splitmix(&mut x)
}

impl Rng {
    pub fn new(seed: u64) -> Self {
        let mut x = seed;
        Rng {
            s: [
                splitmix(&mut x),
                splitmix(&mut x),
                splitmix(&mut x),
                splitmix(&mut x),
            ],
        }
    }

    pub fn next(&mut self) -> u64 {
        let r = self.s[1].wrapping_mul(5).rotate_left(7).wrapping_mul(9);
        let t = self.s[1] << 17;
        self.s[2] ^= self.s[0];
        self.s[3] ^= self.s[1];
        self.s[1] ^= self.s[2];
        self.s[0] ^= self.s[3];
        self.s[2] ^= t;
        self.s[3] = self.s[3].rotate_left(45);
        r
    }

    /// uniform in 0..n (n > 0)
    pub fn below(&mut self, n: u64) -> u64 {
        debug_assert!(n > 0);
        self.next() % n
    }

    pub fn range(&mut self, lo: u64, hi_incl: u64) -> u64 {
        lo + self.below(hi_incl - lo + 1)
    }

    pub fn chance(&mut self, num: u64, den: u64) -> bool {
        self.below(den) < num
    }

    pub fn pick<'a, T>(&mut self, xs: &'a [T]) -> &'a T {
        &xs[self.below(xs.len() as u64) as usize]
    }

    /// weighted choice: returns the index
    pub fn weighted(&mut self, weights: &[u32]) -> usize {
        let total: u64 = weights.iter().map(|w| *w as u64).sum();
        let mut r = self.below(total.max(1));
        for (i, w) in weights.iter().enumerate() {
            if r < *w as u64 {
                return i;
            }
            r -= *w as u64;
        }
        weights.len() - 1
    }

    pub fn bytes(&mut self, n: usize) -> Vec<u8> {
        let mut v = Vec::with_capacity(n);
        while v.len() < n {
            let x = self.next().to_le_bytes();
            let take = (n - v.len()).min(8);
            v.extend_from_slice(&x[..take]);
        }
        v
    }

    /// random bytes of a random length in lo..=hi
    pub fn bytes_range(&mut self, lo: u64, hi: u64) -> Vec<u8> {
        let n = self.range(lo, hi) as usize;
        self.bytes(n)
    }

    pub fn shuffle<T>(&mut self, xs: &mut [T]) {
        for i in (1..xs.len()).rev() {
            let j = self.below(i as u64 + 1) as usize;
            xs.swap(i, j);
        }
    }
}

/// FNV-1a 64 of bytes, used for history hashes
pub fn fnv(data: &[u8]) -> u64 {
    let mut h: u64 = 0xcbf2_9ce4_8422_2325;
    for b in data {
        h ^= *b as u64;
        h = h.wrapping_mul(0x0000_0100_0000_01B3);
    }
    h
}
