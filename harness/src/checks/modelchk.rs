//! Model-differential exploration shared by C01, C02, C04, C10 (storage level) and C15.

use super::common::*;
use crate::drive::{Cfg, Class};
use crate::evidence::Shard;
use crate::ops::{count_histories, gen_history, history_short, nth_history, small_alphabet, Op, Profile};
use crate::rng::Rng;
use crate::runner::Ctx;
use serde_json::json;

pub struct Spec {
    pub property: &'static str,
    pub check_name: &'static str,
    pub profile: Profile,
    pub surface: u32,
    pub owned: Vec<Class>,
    /// which non-triviality rule: 1 = C01 rule, 2 = C02 rule, 0 = always (history ran to completion with >= 1 lifecycle op)
    pub nontrivial_rule: u8,
    pub dup: Option<bool>,
    /// enumerate all histories of this length over the small alphabet (quick, thorough); 0 = none
    pub enumerate_len: (usize, usize),
    /// max random histories per shard (quick, thorough)
    pub max_random: (u64, u64),
    pub tweak_cfg: fn(&mut Cfg, &mut Rng),
}

pub fn no_tweak(_: &mut Cfg, _: &mut Rng) {}

fn is_nontrivial(spec: &Spec, out: &HistOut, ops: &[Op]) -> bool {
    match spec.nontrivial_rule {
        1 => out.nontrivial_c01,
        2 => out.nontrivial_c02,
        _ => ops.iter().any(|o| !matches!(o, Op::Put { .. } | Op::Del { .. })) && out.steps_done >= 3,
    }
}

pub fn shard(ctx: &Ctx, spec: &Spec) -> Shard {
    let mut sh = Shard::default();
    let mut rng = Rng::new(ctx.shard_seed());
    let thorough = ctx.thorough();

    // (b) exhaustive enumeration of small histories, split over the shards
    let elen = if thorough { spec.enumerate_len.1 } else { spec.enumerate_len.0 };
    if elen > 0 {
        let alphabet = small_alphabet();
        let total = count_histories(alphabet.len(), elen);
        let mut idx = ctx.shard as u64;
        let mut done = 0u64;
        let mut complete = true;
        while idx < total {
            if !ctx.time_left() {
                complete = false;
                break;
            }
            let ops = nth_history(&alphabet, elen, idx);
            let mut cfg = Cfg::default_for(1, 0);
            // configuration dimension cycles deterministically with the index
            cfg.keylen = [4usize, 8, 32][(idx % 3) as usize];
            cfg.bloom = ((idx / 3) % 2) as u8;
            cfg.group = [2usize, 3, 8][((idx / 6) % 3) as usize];
            cfg.mt = (idx / 18) % 4 != 0;
            cfg.allow_dup = spec.dup.unwrap_or(true);
            let hid = 0x4000_0000 | idx;
            let out = run_history(&cfg, hid, &ops, spec.surface);
            sh.evaluations += 1;
            done += 1;
            add_stats(&mut sh, &out.stats);
            if is_nontrivial(spec, &out, &ops) {
                sh.nontrivial.insert(hist_hash(&cfg, &ops));
            }
            if done == 1 {
                sh.sample(json!({"kind": "enumerated", "cfg": cfg.to_json(), "history": history_short(&ops)}));
            }
            judge(&mut sh, ctx, spec.property, &spec.owned, &out, replay_json(spec.check_name, &cfg, hid, &ops, spec.surface));
            idx += ctx.shards as u64;
        }
        sh.add("enumerated_histories", done);
        sh.add("enumeration_len", if ctx.shard == 0 { elen as u64 } else { 0 });
        if !complete {
            sh.add("enumeration_incomplete_shards", 1);
        }
    }

    // (a) seeded random histories
    let max_random = if thorough { spec.max_random.1 } else { spec.max_random.0 };
    let mut n = 0u64;
    while n < max_random && ctx.time_left() {
        let mut cfg = random_cfg(&mut rng, spec.profile.n_keys, spec.profile.n_meta, spec.dup);
        (spec.tweak_cfg)(&mut cfg, &mut rng);
        // one history in sixteen runs under pearl's default bloom configuration (filters of several hundred KiB:
        // the filter section dominates the index file and every offset behind it is large)
        if cfg.bloom != 0 && rng.chance(1, 16) {
            cfg.bloom = 2;
        }
        // a quarter of the histories: small record limit, the background worker rotates the active blob by itself
        if rng.chance(1, 4) {
            if rng.chance(1, 2) {
                cfg.max_records = Some(rng.range(1, 5));
            } else {
                cfg.max_blob_size = Some(rng.range(100, 900));
            }
            cfg.auto_rotate = true;
            sh.add("histories_auto_rotation", 1);
        }
        let mut ops = gen_history(&mut rng, &spec.profile);
        // one history in eight starts with 9..14 small blobs, so that blob ids reach two digits (ordering by id
        // must be numeric: t.10 comes after t.9) and the filter hierarchy gets several levels
        if rng.chance(1, 8) {
            let m = rng.range(9, 14);
            let mut pre = Vec::new();
            for i in 0..m {
                pre.push(Op::Put { k: (i % spec.profile.n_keys.max(1) as u64) as u16, ts: rng.below(spec.profile.ts_max.max(1)), meta: None, size: 9 + i as u32 });
                pre.push(Op::ForceUpdate { pred: true });
            }
            pre.extend(ops);
            ops = pre;
            sh.add("histories_many_blobs", 1);
        }
        // one history in forty starts with 80..260 small blobs (three-digit ids, filter hierarchy 3-8 levels deep,
        // long lists in every per-blob answer)
        if rng.chance(1, 40) {
            let m = rng.range(80, 260);
            if cfg.bloom == 2 {
                cfg.bloom = 1;
            }
            let mut pre = Vec::new();
            for i in 0..m {
                pre.push(Op::Put { k: (i % spec.profile.n_keys.max(1) as u64) as u16, ts: rng.below(spec.profile.ts_max.max(1)), meta: None, size: 9 + (i % 30) as u32 });
                pre.push(if i % 7 == 3 { Op::Close } else { Op::ForceUpdate { pred: true } });
                if i % 7 == 3 {
                    pre.push(Op::Create);
                }
            }
            pre.extend(ops);
            ops = pre;
            sh.add("histories_very_many_blobs", 1);
        }
        // one history in twelve starts with a fat blob: 70..140 records over the few keys (several versions of
        // every key, the largest one included), so that the blob's on-disk index has more than one B+tree leaf
        // once the random part of the history closes, dumps or restarts it
        if rng.chance(1, 12) {
            let m = rng.range(70, 140);
            let nk = spec.profile.n_keys.max(1) as u64;
            let mut pre = Vec::new();
            for _ in 0..m {
                let meta = if spec.profile.n_meta > 0 && rng.chance(1, 4) { Some(rng.range(1, spec.profile.n_meta as u64) as u8) } else { None };
                pre.push(Op::Put { k: rng.below(nk) as u16, ts: rng.below(spec.profile.ts_max.max(1) + 1), meta, size: rng.range(8, 24) as u32 });
            }
            pre.push(if rng.chance(1, 2) { Op::ForceUpdate { pred: true } } else { Op::Close });
            pre.push(Op::Dump);
            pre.extend(ops);
            ops = pre;
            sh.add("histories_fat_blob", 1);
        }
        let hid = ((ctx.shard as u64) << 20) | n;
        let out = run_history(&cfg, hid, &ops, spec.surface);
        sh.evaluations += 1;
        n += 1;
        add_stats(&mut sh, &out.stats);
        if is_nontrivial(spec, &out, &ops) {
            sh.nontrivial.insert(hist_hash(&cfg, &ops));
        }
        if n == 1 {
            sh.sample(json!({"kind": "random", "cfg": cfg.to_json(), "history": history_short(&ops)}));
        }
        sh.add(&format!("histories_keylen_{}", cfg.keylen), 1);
        sh.add(if cfg.mt { "histories_multi_thread" } else { "histories_current_thread" }, 1);
        sh.add(if cfg.bloom > 0 { "histories_bloom_on" } else { "histories_bloom_off" }, 1);
        if cfg.bloom == 2 {
            sh.add("histories_pearl_default_bloom_config", 1);
        }
        if cfg.dump_permits.is_some() {
            sh.add("histories_concurrent_blob_loading_at_init", 1);
        }
        if ops.iter().any(|o| matches!(o, Op::Put { ts, .. } | Op::Del { ts, .. } if *ts >= 1 << 31)) {
            sh.add("histories_extreme_timestamps", 1);
        }
        sh.add(if cfg.allow_dup { "histories_dup_allowed" } else { "histories_dup_disallowed" }, 1);
        judge(&mut sh, ctx, spec.property, &spec.owned, &out, replay_json(spec.check_name, &cfg, hid, &ops, spec.surface));
    }
    sh.add("random_histories", n);
    sh
}
