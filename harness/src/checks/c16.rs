//! C16 - offline tools validate exactly well-formed files and recover without loss.

use super::common::random_cfg;
use crate::drive::{Cfg, Driver, Mismatch, S_ALL_QUERIES};
use crate::evidence::{Meta, Shard};
use crate::model::{Model, Rec};
use crate::ops::{gen_history, history_json, history_short, Op, Profile};
use crate::parse::{self, BlobParse, PRec};
use crate::rng::{fnv, Rng};
use crate::runner::{block_on_catch, new_dir, rm_dir, Ctx, Plan};
use pearl::tools;
use pearl::ArrayKey;
use serde_json::{json, Value};
use std::collections::BTreeMap;
use std::path::Path;

pub fn plan() -> Plan {
    Plan {
        meta: Meta {
            property: "C16",
            level: "fault_enumeration",
            rule: "blobs and indexes are produced through the Storage by random histories (key sizes 4/8/16/32/64/128 = every size the index tools dispatch on, metas, markers, 1-4 blobs). (1) validate_blob / validate_index accept every produced file. (2) damage: truncation at every record/field boundary +-1 and random lengths (thorough: every length), one altered byte per position class (blob header magic / version / flags; record header fields; meta; data) of each record: a truncated blob must be rejected unless the cut is exactly a record boundary (decided by the independent parser), every altered blob must be rejected (classes the format cannot detect are listed as known findings), every truncated or altered index must be rejected by validate_index. (3) recovery_blob (skip on/off, validate_every 0/1/3) and move_and_recover_blob on every damaged blob: the output validates, every output record is byte-identical to an original record, it contains every intact record before the damage and - with skipping, for damage confined to the data or to non-size header fields of one record - the records after it; the output is placed in a fresh directory and opened with the Storage: the whole query surface must equal the model built from the contained records. (4) migrate_blob v1->v1 and v0->v1 (blob down-converted by the harness' own serializer) preserves every record. (5) read_index, read_index_sync, IndexSummaryCollector, BlobSummaryCollector report exactly what the independent parser sees. Non-trivial = a damaged-file case; distinct = hash(history, file, damage).",
            assumptions: vec!["the independent parser defines 'well-formed' (contiguous records, valid checksums)", "verdict holds for the files and damages generated for this seed"],
        },
        shards: 16,
        soft_s: (28, 600),
        exhaustive: None,
        min_evaluations: 200,
        extra: None,
    }
}

fn profile() -> Profile {
    Profile {
        n_keys: 5, ts_max: 4, n_meta: 2, len_min: 6, len_max: 24,
        w_put: 34, w_put_meta: 14, w_del: 10, w_del_meta: 3, w_burst: 2, w_rotate: 10,
        w_close: 1, w_create: 1, w_restore: 1, w_bg: 0, w_force: 2, w_dump: 4, w_dump_nowait: 0,
        w_offload: 0, w_fsync: 0, w_restart: 2, restart_rm_idx: false, big_values: false,
    }
}

async fn produce<const N: usize>(d: &mut Driver<N>, ops: &[Op]) -> Result<(), Mismatch> {
    d.open(false).await?;
    for op in ops {
        d.step(op).await?;
    }
    d.step(&Op::Dump).await?;
    d.close().await?;
    Ok(())
}

#[derive(Clone, Debug)]
enum Dmg {
    Trunc(u64),
    /// (position, xor mask, class, record number, skippable)
    Flip(u64, u8, &'static str, usize, bool),
}

impl Dmg {
    fn class(&self) -> String {
        match self {
            Dmg::Trunc(_) => "truncate".into(),
            Dmg::Flip(_, _, c, _, _) => format!("flip@{}", c),
        }
    }
}

fn blob_damages(bp: &BlobParse, rng: &mut Rng, thorough: bool) -> Vec<Dmg> {
    let mut v = Vec::new();
    let len = bp.len;
    let mut lens: std::collections::BTreeSet<u64> = Default::default();
    if thorough && len <= 8192 {
        lens.extend(0..len);
    } else {
        for b in bp.boundaries() {
            for d in [-1i64, 0, 1] {
                let l = b as i64 + d;
                if l >= 0 && (l as u64) < len {
                    lens.insert(l as u64);
                }
            }
        }
        for r in bp.records.iter() {
            for b in [r.pos + 8, r.pos + 16, r.pos + r.header_len - 4, r.pos + r.header_len, r.pos + r.header_len + r.meta_size] {
                if b < len {
                    lens.insert(b);
                }
            }
        }
        for b in [0u64, 1, 8, 12, 19] {
            lens.insert(b.min(len.saturating_sub(1)));
        }
        for _ in 0..10 {
            lens.insert(rng.below(len.max(1)));
        }
    }
    for l in lens {
        v.push(Dmg::Trunc(l));
    }
    let mask = |rng: &mut Rng| -> u8 {
        match rng.below(3) {
            0 => 1 << rng.below(8),
            1 => 0xFF,
            _ => (rng.below(255) + 1) as u8,
        }
    };
    // blob header
    for (lo, hi, cls) in [(0u64, 8u64, "blob-header-magic"), (8, 12, "blob-header-version"), (12, 20, "blob-header-flags")] {
        let n = if thorough { hi - lo } else { 2 };
        for i in 0..n {
            let p = if thorough { lo + i } else { rng.range(lo, hi - 1) };
            v.push(Dmg::Flip(p, mask(rng), cls, usize::MAX, false));
        }
    }
    for (ri, r) in bp.records.iter().enumerate() {
        let klen = r.key.len() as u64;
        // record header fields: magic, key length, key bytes, meta_size, data_size, flags, blob_offset, timestamp, checksums
        let o = r.pos + 16 + klen;
        let fields: [(u64, u64, &'static str, bool); 10] = [
            (r.pos, r.pos + 8, "record-header-magic", true),
            (r.pos + 8, r.pos + 16, "record-header-keylen", false),
            (r.pos + 16, o, "record-header-key", true),
            (o, o + 8, "record-header-meta-size", false),
            (o + 8, o + 16, "record-header-data-size", false),
            (o + 16, o + 17, "record-header-flags", true),
            (o + 17, o + 25, "record-header-blob-offset", true),
            (o + 25, o + 33, "record-header-timestamp", true),
            (o + 33, o + 37, "record-header-data-checksum", true),
            (o + 37, o + 41, "record-header-checksum", true),
        ];
        for (lo, hi, cls, skippable) in fields {
            if hi <= lo {
                continue;
            }
            let n = if thorough { hi - lo } else { 1 };
            for i in 0..n {
                let p = if thorough { lo + i } else { rng.range(lo, hi - 1) };
                v.push(Dmg::Flip(p, mask(rng), cls, ri, skippable));
            }
        }
        let ms = r.pos + r.header_len;
        if r.meta_size > 0 {
            // meta: the entry count / lengths vs the payload bytes
            v.push(Dmg::Flip(ms + rng.below(8.min(r.meta_size)), mask(rng), "meta-structure", ri, false));
            if r.meta_size > 8 {
                let n = if thorough { (r.meta_size - 8).min(64) } else { 2 };
                for _ in 0..n {
                    v.push(Dmg::Flip(ms + 8 + rng.below(r.meta_size - 8), mask(rng), "meta", ri, false));
                }
            }
        }
        if r.data_size > 0 {
            let ds = ms + r.meta_size;
            let n = if thorough { r.data_size.min(64) } else { 2 };
            for _ in 0..n {
                v.push(Dmg::Flip(ds + rng.below(r.data_size), mask(rng), "data", ri, true));
            }
        }
    }
    v
}

fn apply(orig: &[u8], d: &Dmg) -> Vec<u8> {
    match d {
        Dmg::Trunc(l) => orig[..*l as usize].to_vec(),
        Dmg::Flip(p, m, _, _, _) => {
            let mut b = orig.to_vec();
            b[*p as usize] ^= *m;
            b
        }
    }
}

fn same_record(a: &PRec, b: &PRec) -> bool {
    // meta is a serialized hash map: entry order may legitimately change when a tool re-serializes it
    a.key == b.key && a.ts == b.ts && a.flags == b.flags && a.data == b.data && (a.meta == b.meta || (parse::parse_meta(&a.meta).is_some() && parse::parse_meta(&a.meta) == parse::parse_meta(&b.meta)))
}

/// model of a single-blob storage holding `recs` (values identified through the original model records)
fn model_from(recs: &[Rec]) -> Model {
    let mut m = Model::new(true);
    m.relaxed = true;
    m.blobs.clear();
    m.blobs.insert(0, recs.to_vec());
    m.active = Some(0);
    m.closed.clear();
    m.next_id = 1;
    m
}

struct Fail(String, String);

fn check_readers<const N: usize>(dir: &Path, id: usize, bp: &BlobParse, sh: &mut Shard) -> Result<(), Fail> {
    let blob = dir.join(format!("t.{}.blob", id));
    let idx = dir.join(format!("t.{}.index", id));
    tools::validate_blob(&blob).map_err(|e| Fail("validate_blob/rejects-produced-blob".into(), format!("{}: {:#}", blob.display(), e)))?;
    sh.add("produced_blobs_validated", 1);
    let b = tools::BlobSummaryCollector::from_path(&blob, true).map_err(|e| Fail("BlobSummaryCollector/failed".into(), format!("{:#}", e)))?;
    let puts = bp.records.iter().filter(|r| !r.deleted()).count();
    let dels = bp.records.iter().filter(|r| r.deleted()).count();
    let ukeys: std::collections::BTreeSet<&Vec<u8>> = bp.records.iter().filter(|r| !r.deleted()).map(|r| &r.key).collect();
    let dkeys: std::collections::BTreeSet<&Vec<u8>> = bp.records.iter().filter(|r| r.deleted()).map(|r| &r.key).collect();
    if b.records() != puts || b.deleted_records() != dels || b.unique_keys_count() != ukeys.len() || b.unique_deleted_keys_count() != dkeys.len() || b.header_magic_byte() != bp.magic || b.header_version() != bp.version || b.header_flags() != bp.flags {
        return Err(Fail("BlobSummaryCollector/differs".into(), format!("collector: records {} deleted {} keys {} deleted keys {}; parser: {} {} {} {}", b.records(), b.deleted_records(), b.unique_keys_count(), b.unique_deleted_keys_count(), puts, dels, ukeys.len(), dkeys.len())));
    }
    if !idx.exists() {
        return Ok(());
    }
    tools::validate_index::<ArrayKey<N>>(&idx).map_err(|e| Fail("validate_index/rejects-produced-index".into(), format!("{}: {:#}", idx.display(), e)))?;
    sh.add("produced_indexes_validated", 1);
    // the same index on its own (no blob file next to it: the tool then takes the blob size from the index header)
    {
        let alone_dir = new_dir("c16-alone-");
        let alone = alone_dir.join(format!("t.{}.index", id));
        let _ = std::fs::copy(&idx, &alone);
        let r = tools::validate_index::<ArrayKey<N>>(&alone);
        rm_dir(&alone_dir);
        r.map_err(|e| Fail("validate_index/rejects-produced-index-without-blob".into(), format!("{}: {:#}", idx.display(), e)))?;
        sh.add("produced_indexes_validated_without_blob", 1);
    }
    let ip = parse::parse_index(&std::fs::read(&idx).unwrap_or_default());
    let expect: BTreeMap<Vec<u8>, Vec<u64>> = {
        let mut m: BTreeMap<Vec<u8>, Vec<u64>> = BTreeMap::new();
        for h in ip.headers.iter() {
            m.entry(h.key.clone()).or_default().push(h.blob_offset);
        }
        for v in m.values_mut() {
            v.sort();
        }
        m
    };
    for sync in [false, true] {
        let got = if sync {
            tools::read_index_sync(&idx)
        } else {
            let rt = crate::runner::runtime(false);
            rt.block_on(tools::read_index(&idx))
        }
        .map_err(|e| Fail("read_index/failed".into(), format!("{:#}", e)))?;
        let got: BTreeMap<Vec<u8>, Vec<u64>> = got
            .into_iter()
            .map(|(k, v)| {
                let mut o: Vec<u64> = v.iter().map(|h| h.blob_offset()).collect();
                o.sort();
                (k, o)
            })
            .collect();
        if got != expect {
            return Err(Fail("read_index/differs".into(), format!("read_index{} reports {} keys / {} headers, the file holds {} / {}", if sync { "_sync" } else { "" }, got.len(), got.values().map(|v| v.len()).sum::<usize>(), expect.len(), ip.headers.len())));
        }
    }
    let c = tools::IndexSummaryCollector::from_path(&idx).map_err(|e| Fail("IndexSummaryCollector/failed".into(), format!("{:#}", e)))?;
    if c.records_readed() != ip.headers.len() || c.unique_keys_count() != expect.len() || c.header_records_count() as u64 != ip.records_count || c.header_key_size() != ip.key_size || !c.header_is_written() || c.header_record_header_size() as u64 != ip.record_header_size || c.header_version() != ip.version() || c.header_meta_size() as u64 != ip.meta_size || c.header_hash() != ip.hash {
        return Err(Fail("IndexSummaryCollector/differs".into(), "summary differs from the independent parse".into()));
    }
    sh.add("reader_tools_compared", 1);
    Ok(())
}

/// blob with version 0 layout: key bytes reversed in every record header (header checksum recomputed)
fn to_v0(orig: &[u8], bp: &BlobParse) -> Vec<u8> {
    let mut b = orig.to_vec();
    b[8..12].copy_from_slice(&0u32.to_le_bytes());
    for r in bp.records.iter() {
        let ks = r.pos as usize + 16;
        let ke = ks + r.key.len();
        b[ks..ke].reverse();
        let hs = r.pos as usize;
        let he = hs + r.header_len as usize;
        b[he - 4..he].copy_from_slice(&[0, 0, 0, 0]);
        let crc = parse::crc32c(&b[hs..he]);
        b[he - 4..he].copy_from_slice(&crc.to_le_bytes());
    }
    b
}

fn eval_file<const N: usize>(ctx: &Ctx, sh: &mut Shard, rng: &mut Rng, cfg: &Cfg, ops: &[Op], model_recs: &[Rec], orig: &[u8], bp: &BlobParse, idx_bytes: Option<&[u8]>, id: usize, scratch: &Path) -> Result<(), (Fail, Value)> {
    let hist = history_short(ops);
    let base_replay = |extra: Value| -> Value { json!({"check": "c16", "cfg": cfg.to_json(), "history": history_json(ops), "short": hist, "blob_id": id, "case": extra}) };
    // (4) migration
    {
        let inp = scratch.join("m.in.blob");
        let outp = scratch.join("m.out.blob");
        std::fs::write(&inp, orig).unwrap();
        let _ = std::fs::remove_file(&outp);
        tools::migrate_blob(&inp, &outp, 2, 1).map_err(|e| (Fail("migrate_blob/v1-v1-failed".into(), format!("{:#}", e)), base_replay(json!("migrate v1->v1"))))?;
        let o = parse::parse_blob_file(&outp).unwrap();
        if !o.complete_and_sound() || o.records.len() != bp.records.len() || !o.records.iter().zip(bp.records.iter()).all(|(a, b)| same_record(a, b)) || o.version != 1 {
            return Err((Fail("migrate_blob/v1-v1-differs".into(), "records differ after v1->v1 migration".into()), base_replay(json!("migrate v1->v1"))));
        }
        std::fs::write(&inp, to_v0(orig, bp)).unwrap();
        // output path reused: it still holds the previous (v1->v1) output plus junk
        let mut old = std::fs::read(&outp).unwrap_or_default();
        old.extend_from_slice(&[0xEE; 61]);
        let _ = std::fs::write(&outp, &old);
        tools::migrate_blob(&inp, &outp, 0, 1).map_err(|e| (Fail("migrate_blob/v0-v1-failed".into(), format!("{:#}", e)), base_replay(json!("migrate v0->v1"))))?;
        let o = parse::parse_blob_file(&outp).unwrap();
        if !o.complete_and_sound() || o.records.len() != bp.records.len() || !o.records.iter().zip(bp.records.iter()).all(|(a, b)| same_record(a, b)) || o.version != 1 {
            return Err((Fail("migrate_blob/v0-v1-differs".into(), format!("records differ after v0->v1 migration (output version {}, {} records, sound {})", o.version, o.records.len(), o.complete_and_sound())), base_replay(json!("migrate v0->v1"))));
        }
        sh.add("migrations_checked", 2);
    }
    // index damage
    if let Some(ib) = idx_bytes {
        let ipath = scratch.join(format!("t.{}.index", id));
        let bpath = scratch.join(format!("t.{}.blob", id));
        std::fs::write(&bpath, orig).unwrap();
        let mut cases: Vec<(String, Vec<u8>)> = Vec::new();
        let ip = parse::parse_index(ib);
        let mut lens: std::collections::BTreeSet<u64> = Default::default();
        if ctx.thorough() {
            lens.extend(0..ib.len() as u64);
        } else {
            for (_, b) in ip.boundaries.iter() {
                for d in [-1i64, 0, 1] {
                    let l = *b as i64 + d;
                    if l >= 0 && (l as u64) < ib.len() as u64 {
                        lens.insert(l as u64);
                    }
                }
            }
            for _ in 0..8 {
                lens.insert(rng.below(ib.len() as u64));
            }
        }
        for l in lens {
            cases.push((format!("truncate@{}", l), ib[..l as usize].to_vec()));
        }
        let nflip = if ctx.thorough() { ib.len().min(600) } else { 24 };
        for i in 0..nflip {
            let p = if ctx.thorough() { i } else { rng.below(ib.len() as u64) as usize };
            let mut b = ib.to_vec();
            b[p] ^= 1 << rng.below(8);
            let region = if p < 83 { "header" } else if (p as u64) < 83 + ip.meta_size { "filters" } else if (p as u64) < ip.leaves_offset { "tree" } else { "leaves" };
            cases.push((format!("flip@{}", region), b));
        }
        for (case_no, (name, bytes)) in cases.into_iter().enumerate() {
            std::fs::write(&ipath, &bytes).unwrap();
            // every third damaged index is judged without its blob file (blob size then comes from the index header)
            if case_no % 3 == 2 {
                let _ = std::fs::remove_file(&bpath);
                sh.add("index_damage_cases_without_blob", 1);
            } else if !bpath.exists() {
                std::fs::write(&bpath, orig).unwrap();
            }
            sh.evaluations += 1;
            sh.add("index_damage_cases", 1);
            let cls: String = name.split('@').next().unwrap().to_string() + "@" + if name.starts_with("flip") { name.split('@').nth(1).unwrap() } else { "len" };
            sh.nontrivial.insert(fnv(format!("{}|idx{}|{}", hist, id, name).as_bytes()));
            let r = std::panic::catch_unwind(|| tools::validate_index::<ArrayKey<N>>(&ipath));
            match r {
                Ok(Err(_)) => {}
                Ok(Ok(())) => return Err((Fail(format!("validate_index/accepts/{}", cls), format!("validate_index accepted an index with damage {}", name)), base_replay(json!({"index": name})))),
                Err(_) => {
                    let p = crate::runner::take_panics();
                    return Err((Fail(format!("validate_index/panics/{}", cls), format!("validate_index panicked on damage {}: {:?}", name, p.last())), base_replay(json!({"index": name}))));
                }
            }
        }
        let _ = std::fs::remove_file(&ipath);
        let _ = std::fs::remove_file(&bpath);
    }
    // blob damage
    let damages = blob_damages(bp, rng, ctx.thorough());
    let boundaries: Vec<u64> = bp.boundaries();
    for dmg in damages {
        if !ctx.time_left() {
            sh.add("cases_skipped_time_budget", 1);
            break;
        }
        let bytes = apply(orig, &dmg);
        let inp = scratch.join("d.in.blob");
        std::fs::write(&inp, &bytes).unwrap();
        sh.evaluations += 1;
        sh.add(&format!("blob_damage_{}", dmg.class()), 1);
        sh.nontrivial.insert(fnv(format!("{}|blob{}|{:?}", hist, id, dmg).as_bytes()));
        let replay = base_replay(json!({"blob_damage": format!("{:?}", dmg)}));
        // (2) validation
        let v = std::panic::catch_unwind(|| tools::validate_blob(&inp));
        let accepted = match v {
            Ok(r) => r.is_ok(),
            Err(_) => {
                let p = crate::runner::take_panics();
                return Err((Fail(format!("validate_blob/panics/{}", dmg.class()), format!("validate_blob panicked on {:?}: {:?}", dmg, p.last())), replay));
            }
        };
        match &dmg {
            Dmg::Trunc(l) => {
                let well_formed = boundaries.contains(l);
                if accepted && !well_formed {
                    return Err((Fail("validate_blob/accepts/truncate".into(), format!("validate_blob accepted a blob cut at {} (not a record boundary)", l)), replay));
                }
                if !accepted && well_formed {
                    return Err((Fail("validate_blob/rejects/record-boundary-cut".into(), format!("validate_blob rejected a blob cut exactly at record boundary {} (a blob the storage itself produces)", l)), replay));
                }
            }
            Dmg::Flip(_, _, cls, _, _) => {
                if accepted {
                    // both meta classes have the same cause: no checksum covers the metadata bytes
                    let cls = if cls.starts_with("meta") { "meta" } else { cls };
                    let sig = format!("C16/validate_blob/accepts/flip@{}", cls);
                    if !sh.violation_known(&ctx.known, "C16", ctx.seed, &sig, &format!("validate_blob accepted a blob with an altered byte: {:?}", dmg), replay.clone()) {
                        return Ok(());
                    }
                }
            }
        }
        // (3) recovery
        let (damage_pos, rec_no, skippable) = match &dmg {
            Dmg::Trunc(l) => (*l, usize::MAX, false),
            Dmg::Flip(p, _, _, r, s) => (*p, *r, *s),
        };
        for (mode, skip, every) in [("recovery_blob", false, 0usize), ("recovery_blob+skip", true, 1), ("recovery_blob+skip", true, 3), ("move_and_recover_blob", true, 2)] {
            let outp = scratch.join("d.out.blob");
            // the output path may already hold an older (longer) file, e.g. a reused scratch path:
            // half of the runs start with the complete original blob + junk there
            if every % 2 == 1 {
                let mut old = orig.to_vec();
                old.extend_from_slice(&[0xEE; 97]);
                let _ = std::fs::write(&outp, &old);
                sh.add("recoveries_into_existing_output_file", 1);
            } else {
                let _ = std::fs::remove_file(&outp);
            }
            let res = if mode == "move_and_recover_blob" {
                let work = scratch.join("d.work.blob");
                let backup = scratch.join("d.backup.blob");
                std::fs::write(&work, &bytes).unwrap();
                let _ = std::fs::remove_file(&backup);
                let r = std::panic::catch_unwind(|| tools::move_and_recover_blob(&work, &backup, every));
                if let Ok(Ok(())) = &r {
                    if std::fs::read(&backup).ok().as_deref() != Some(bytes.as_slice()) {
                        return Err((Fail("move_and_recover_blob/backup-differs".into(), "the backup is not byte-identical to the damaged input".into()), replay));
                    }
                    let _ = std::fs::rename(&work, &outp);
                } else if let Ok(Err(_)) = &r {
                    // the input must still exist somewhere (moved to backup or left in place)
                    let kept = std::fs::read(&backup).ok().or_else(|| std::fs::read(&work).ok());
                    if kept.as_deref() != Some(bytes.as_slice()) {
                        return Err((Fail("move_and_recover_blob/input-lost".into(), "after a failed move_and_recover_blob the damaged input exists neither at its path nor as the backup".into()), replay));
                    }
                }
                let _ = std::fs::remove_file(&work);
                let _ = std::fs::remove_file(&backup);
                r
            } else {
                std::panic::catch_unwind(|| tools::recovery_blob(&inp, &outp, every, skip))
            };
            let res = match res {
                Ok(r) => r,
                Err(_) => {
                    let p = crate::runner::take_panics();
                    return Err((Fail(format!("{}/panics/{}", mode, dmg.class()), format!("{} panicked on {:?}: {:?}", mode, dmg, p.last())), replay));
                }
            };
            sh.add("recoveries_run", 1);
            let header_damaged = damage_pos < 20;
            if res.is_err() {
                // only an unreadable blob header justifies a refusal
                let magic_hit = matches!(&dmg, Dmg::Flip(p, _, _, _, _) if *p < 8) || matches!(&dmg, Dmg::Trunc(l) if *l < 20);
                if !magic_hit {
                    return Err((Fail(format!("{}/refuses/{}", mode, dmg.class()), format!("{} failed on {:?}: {:#}", mode, dmg, res.unwrap_err())), replay));
                }
                continue;
            }
            let o = match parse::parse_blob_file(&outp) {
                Ok(o) => o,
                Err(e) => return Err((Fail(format!("{}/no-output", mode), e.to_string()), replay)),
            };
            if tools::validate_blob(&outp).is_err() {
                return Err((Fail(format!("{}/output-does-not-validate", mode), format!("output of {} on {:?} is rejected by validate_blob", mode, dmg)), replay));
            }
            // every output record is an original record (the damaged one may appear when its damage is undetectable)
            let mut used: Vec<usize> = Vec::new();
            let mut altered_in_output = false;
            for r in o.records.iter() {
                match bp.records.iter().position(|b| same_record(r, b)) {
                    Some(i) => used.push(i),
                    None => {
                        let undetectable = matches!(&dmg, Dmg::Flip(_, _, c, _, _) if c.starts_with("meta") || c.starts_with("blob-header"));
                        if !undetectable {
                            return Err((Fail(format!("{}/output-record-not-original/{}", mode, dmg.class()), format!("{} wrote a record (key {:?}, ts {}) that is not byte-identical to any original record", mode, r.key, r.ts)), replay));
                        }
                        used.push(rec_no);
                        altered_in_output = true;
                    }
                }
            }
            // must contain: every intact record before the damage
            let n_before = if header_damaged { if matches!(&dmg, Dmg::Flip(..)) { bp.records.len() } else { 0 } } else { bp.records.iter().filter(|r| r.end() <= damage_pos).count() };
            let undetectable_flip = matches!(&dmg, Dmg::Flip(_, _, c, _, _) if c.starts_with("blob-header-v") || c.starts_with("blob-header-f"));
            let n_before = if undetectable_flip { bp.records.len() } else { n_before };
            for i in 0..n_before.min(bp.records.len()) {
                if !o.records.iter().any(|r| same_record(r, &bp.records[i])) {
                    return Err((Fail(format!("{}/loses-intact-record-before-damage/{}", mode, dmg.class()), format!("{} on {:?}: intact record #{} (ends at {}, damage at {}) is missing from the output ({} records written)", mode, dmg, i, bp.records[i].end(), damage_pos, o.records.len())), replay));
                }
            }
            if skip && skippable && rec_no != usize::MAX {
                for i in (rec_no + 1)..bp.records.len() {
                    if !o.records.iter().any(|r| same_record(r, &bp.records[i])) {
                        return Err((Fail(format!("{}/loses-record-after-isolated-damage/{}", mode, dmg.class()), format!("{} on {:?}: record #{} after the isolated damaged record #{} is missing from the output", mode, dmg, i, rec_no)), replay));
                    }
                }
                sh.add("recoveries_with_skipped_record", 1);
            }
            // the storage must serve what the output contains (a blob whose header carries another format
            // version is refused by the storage by design: version mismatch is C17's subject)
            if matches!(&dmg, Dmg::Flip(_, _, c, _, _) if *c == "blob-header-version") {
                continue;
            }
            let sdir = scratch.join("open");
            let _ = std::fs::remove_dir_all(&sdir);
            std::fs::create_dir_all(&sdir).unwrap();
            std::fs::copy(&outp, sdir.join("t.0.blob")).unwrap();
            let recs: Vec<Rec> = used.iter().filter(|i| **i < model_recs.len()).map(|i| model_recs[*i].clone()).collect();
            if recs.len() != o.records.len() || altered_in_output {
                continue; // an undetectably altered record is in the output: its content cannot be predicted
            }
            let mut c2 = cfg.clone();
            c2.validate_data = true;
            let mut dd: Driver<N> = Driver::new(sdir.clone(), c2.clone(), 0);
            dd.model = model_from(&recs);
            let r = block_on_catch(c2.mt, async {
                dd.open(false).await?;
                if dd.st().corrupted_blobs_count() != 0 {
                    return Err(Mismatch { class: crate::drive::Class::Init, sig: "recovered-blob-quarantined".into(), detail: "the recovered blob was quarantined by the storage".into(), step: 0 });
                }
                dd.check(S_ALL_QUERIES).await?;
                dd.close().await
            });
            sh.add("recovered_blobs_opened_with_storage", 1);
            match r {
                Ok(Ok(())) => {}
                Ok(Err(m)) => {
                    let after_skip = if o.records.len() > n_before { "after-skipped-record" } else { "prefix-only" };
                    return Err((Fail(format!("{}/storage-cannot-serve-output/{}/{}", mode, after_skip, m.sig), format!("output of {} on {:?} ({} records) opened with the storage: {}", mode, dmg, o.records.len(), m.detail)), replay));
                }
                Err(p) => return Err((Fail(format!("{}/storage-panics-on-output", mode), p), replay)),
            }
        }
    }
    Ok(())
}

fn eval_history<const N: usize>(ctx: &Ctx, sh: &mut Shard, rng: &mut Rng, cfg: &Cfg, ops: &[Op], hid: u64) {
    let dir = new_dir("c16-");
    let scratch = new_dir("c16s-");
    let mut d: Driver<N> = Driver::new(dir.clone(), cfg.clone(), hid);
    match block_on_catch(cfg.mt, produce(&mut d, ops)) {
        Ok(Ok(())) => {}
        Ok(Err(_)) => {
            sh.add("desync_histories", 1);
            rm_dir(&dir);
            rm_dir(&scratch);
            return;
        }
        Err(p) => {
            sh.violation(&ctx.known, "C16", ctx.seed, "C16/panic-producing-files", &p, json!({"check": "c16", "history": history_json(ops)}));
            rm_dir(&dir);
            rm_dir(&scratch);
            return;
        }
    }
    sh.add("histories", 1);
    let ids: Vec<usize> = d.model.blobs.keys().copied().collect();
    for id in ids {
        let bpath = dir.join(format!("t.{}.blob", id));
        let orig = match std::fs::read(&bpath) {
            Ok(b) => b,
            Err(_) => continue,
        };
        let bp = parse::parse_blob(&orig);
        let model_recs = d.model.blobs[&id].clone();
        if !bp.complete_and_sound() || bp.records.len() != model_recs.len() {
            sh.violation(&ctx.known, "C16", ctx.seed, "C16/produced-blob-not-well-formed", &format!("blob {} produced by the storage does not parse: {:?}", id, bp.error), json!({"check": "c16", "history": history_json(ops)}));
            continue;
        }
        let mut local = Shard::default();
        let r = std::panic::catch_unwind(std::panic::AssertUnwindSafe(|| check_readers::<N>(&dir, id, &bp, &mut local)));
        for (k, v) in local.counters {
            sh.add(&k, v);
        }
        sh.evaluations += 1;
        match r {
            Ok(Ok(())) => {}
            Ok(Err(Fail(sig, detail))) => sh.violation(&ctx.known, "C16", ctx.seed, &format!("C16/{}", sig), &detail, json!({"check": "c16", "cfg": cfg.to_json(), "history": history_json(ops), "blob_id": id})),
            Err(_) => {
                let p = crate::runner::take_panics();
                sh.violation(&ctx.known, "C16", ctx.seed, "C16/reader-tools-panic", &format!("{:?}", p.last()), json!({"check": "c16", "history": history_json(ops), "blob_id": id}));
            }
        }
        if bp.records.is_empty() {
            continue;
        }
        let idx_bytes = std::fs::read(dir.join(format!("t.{}.index", id))).ok();
        if sh.samples.len() < 2 {
            sh.sample(json!({"history": history_short(ops), "blob": id, "records": bp.records.len(), "blob_bytes": orig.len(), "index_bytes": idx_bytes.as_ref().map(|b| b.len())}));
        }
        if let Err((Fail(sig, detail), replay)) = eval_file::<N>(ctx, sh, rng, cfg, ops, &model_recs, &orig, &bp, idx_bytes.as_deref(), id, &scratch) {
            sh.violation(&ctx.known, "C16", ctx.seed, &format!("C16/{}", sig), &detail, replay);
        }
    }
    rm_dir(&dir);
    rm_dir(&scratch);
}

pub fn shard(ctx: &Ctx) -> Shard {
    let mut sh = Shard::default();
    let mut rng = Rng::new(ctx.shard_seed());
    let p = profile();
    let mut n = 0u64;
    while ctx.time_left() {
        let mut cfg = random_cfg(&mut rng, p.n_keys, p.n_meta, Some(true));
        cfg.validate_data = false;
        // every key size the index tools dispatch on (read_index: 4, 8, 16, 32, 64, 128)
        cfg.keylen = *rng.pick(&[4usize, 8, 8, 16, 32, 64, 128]);
        sh.add(&format!("histories_keylen_{}", cfg.keylen), 1);
        let ops = gen_history(&mut rng, &p);
        let hid = ((ctx.shard as u64) << 20) | n;
        match cfg.keylen {
            4 => eval_history::<4>(ctx, &mut sh, &mut rng, &cfg, &ops, hid),
            16 => eval_history::<16>(ctx, &mut sh, &mut rng, &cfg, &ops, hid),
            32 => eval_history::<32>(ctx, &mut sh, &mut rng, &cfg, &ops, hid),
            64 => eval_history::<64>(ctx, &mut sh, &mut rng, &cfg, &ops, hid),
            128 => eval_history::<128>(ctx, &mut sh, &mut rng, &cfg, &ops, hid),
            _ => eval_history::<8>(ctx, &mut sh, &mut rng, &cfg, &ops, hid),
        }
        n += 1;
    }
    sh
}
