//! Shared pieces of the model-differential checks.

use crate::drive::{Cfg, Class, Driver, Mismatch, Stats};
use crate::evidence::Shard;
use crate::ops::{history_json, history_short, Op};
use crate::rng::{fnv, Rng};
use crate::runner::{block_on_catch, new_dir, rm_dir, Ctx};
use serde_json::{json, Value};

pub enum HistResult {
    Done,
    Mismatch(Mismatch),
    Panic(String),
}

pub struct HistOut {
    pub result: HistResult,
    pub stats: Stats,
    pub nontrivial_c01: bool,
    pub nontrivial_c02: bool,
    pub steps_done: usize,
}

async fn run_n<const N: usize>(d: &mut Driver<N>, ops: &[Op], surface: u32, flags: &mut (bool, bool, usize)) -> Result<(), Mismatch> {
    d.open(false).await?;
    d.check(surface).await?;
    for op in ops {
        d.step(op).await?;
        flags.2 += 1;
        if !flags.0 {
            flags.0 = d.nontrivial_c01();
        }
        if !flags.1 {
            flags.1 = d.nontrivial_c02();
        }
        d.check(surface).await?;
    }
    d.close().await?;
    Ok(())
}

fn run_history_n<const N: usize>(cfg: &Cfg, hist_id: u64, ops: &[Op], surface: u32) -> HistOut {
    let dir = new_dir("h");
    let mut d: Driver<N> = Driver::new(dir.clone(), cfg.clone(), hist_id);
    let mut flags = (false, false, 0usize);
    let r = block_on_catch(cfg.mt, async {
        let r = run_n(&mut d, ops, surface, &mut flags).await;
        if r.is_err() {
            // best effort: release the directory
            if let Some(s) = d.storage.take() {
                let _ = tokio::time::timeout(std::time::Duration::from_secs(5), s.close()).await;
            }
        }
        r
    });
    rm_dir(&dir);
    let result = match r {
        Ok(Ok(())) => HistResult::Done,
        Ok(Err(m)) => HistResult::Mismatch(m),
        Err(p) => HistResult::Panic(p),
    };
    HistOut { result, stats: d.stats.clone(), nontrivial_c01: flags.0, nontrivial_c02: flags.1, steps_done: flags.2 }
}

pub fn run_history(cfg: &Cfg, hist_id: u64, ops: &[Op], surface: u32) -> HistOut {
    match cfg.keylen {
        4 => run_history_n::<4>(cfg, hist_id, ops, surface),
        32 => run_history_n::<32>(cfg, hist_id, ops, surface),
        _ => run_history_n::<8>(cfg, hist_id, ops, surface),
    }
}

pub fn hist_hash(cfg: &Cfg, ops: &[Op]) -> u64 {
    let mut s = history_short(ops);
    s.push_str(&format!("|{}|{}|{}|{}|{}", cfg.keylen, cfg.bloom, cfg.group, cfg.allow_dup, cfg.mt));
    fnv(s.as_bytes())
}

pub fn replay_json(check: &str, cfg: &Cfg, hist_id: u64, ops: &[Op], surface: u32) -> Value {
    json!({"check": check, "cfg": cfg.to_json(), "hist_id": hist_id, "surface": surface, "history": history_json(ops), "short": history_short(ops)})
}

pub fn random_cfg(rng: &mut Rng, n_keys: u16, n_meta: u8, dup: Option<bool>) -> Cfg {
    Cfg {
        keylen: *rng.pick(&[4usize, 8, 32]),
        bloom: *rng.pick(&[0u8, 1, 1]),
        group: *rng.pick(&[2usize, 2, 3, 4, 8]),
        allow_dup: dup.unwrap_or_else(|| rng.chance(1, 2)),
        mt: rng.chance(3, 4),
        validate_data: rng.chance(1, 4),
        ignore_corrupted: false,
        max_dirty: None,
        key_salt: rng.next(),
        n_keys,
        n_meta,
        max_records: None,
        auto_rotate: false,
        bloom_flip: false,
        max_blob_size: None,
        deferred_ms: None,
        corrupted_dir: None,
        dump_permits: if rng.chance(1, 4) { Some(rng.range(2, 9) as u8) } else { None },
    }
}

pub fn add_stats(sh: &mut Shard, st: &Stats) {
    sh.add("queries_compared", st.compared);
    sh.add("steps", st.steps);
    sh.add("ties_in_blob", st.ties_in_blob);
    sh.add("ties_across_blobs", st.ties_across_blobs);
    sh.add("multi_blob_key_states", st.multi_blob_keys);
    sh.add("marker_multi_blob_states", st.marker_multi_blob);
    sh.max("max_versions_per_key", st.max_versions);
    sh.add("restarts", st.restarts);
    sh.add("index_files_removed", st.idx_removed);
    sh.add("dup_writes_skipped", st.dup_skipped);
    sh.add("lifecycle_ok", st.lifecycle_ok);
    sh.add("lifecycle_err_expected", st.lifecycle_err);
    sh.add("deletes_into_closed_blobs", st.del_in_closed);
    sh.add("filter_checks", st.filter_checks);
    sh.add("disk_used_exact_checks", st.disk_exact);
    sh.add("disk_used_bounded_checks", st.disk_bounded);
    sh.add("offloaded_bytes", st.offloaded_bytes);
    sh.add("automatic_rotations_mirrored", st.auto_rotations);
    sh.add("automatic_rotations_by_size", st.auto_rotations_by_size);
    sh.add("restarts_under_another_bloom_config", st.bloom_flips);
    sh.add("steps_over_limit_not_yet_rotated", st.overfull_steps);
    for a in st.abstract_states.iter() {
        sh.set_insert("abstract_states", *a as u64);
    }
}

/// Outcome handling shared by the model checks: `owned` lists the mismatch classes that are
/// violations of `property`; other classes abandon the history as a desync (counted).
pub fn judge(sh: &mut Shard, ctx: &Ctx, property: &str, owned: &[Class], out: &HistOut, replay: Value) {
    match &out.result {
        HistResult::Done => {}
        HistResult::Mismatch(m) => {
            if owned.contains(&m.class) {
                let sig = format!("{}/{}", property, m.sig);
                sh.violation(&ctx.known, property, ctx.seed, &sig, &format!("step {}: {}", m.step, m.detail), replay);
            } else {
                sh.add("desync_histories", 1);
                sh.add(&format!("desync_{}", m.class.name()), 1);
                if sh.notes.len() < 5 {
                    sh.notes.push(format!("history abandoned on a mismatch owned by another property ({}): {}", m.class.name(), m.detail));
                }
            }
        }
        HistResult::Panic(p) => {
            let short: String = p.chars().take(80).collect();
            let sig = format!("{}/panic/{}", property, short.split(" @ ").last().unwrap_or(""));
            sh.violation(&ctx.known, property, ctx.seed, &sig, &format!("panic inside a storage call: {}", p), replay);
        }
    }
}
