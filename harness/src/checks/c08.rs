//! C08 - concurrent clients: linearizable results, no lost or torn records, no deadlock.

use crate::drive::{builder_for, close_monitored, key_bytes, val_of_bytes, value_bytes, Cfg, CloseOutcome};
use crate::evidence::{Meta, Shard};
use crate::parse;
use crate::rng::{fnv, Rng};
use crate::runner::{block_on_catch, new_dir, rm_dir, Ctx, Plan};
use bytes::Bytes;
use pearl::verif::tap;
use pearl::{ArrayKey, BlobRecordTimestamp, ReadResult, Storage};
use serde_json::json;
use std::collections::{BTreeMap, HashMap};
use std::sync::atomic::{AtomicU64, Ordering};
use std::sync::Arc;
use std::time::{Duration, Instant};

pub fn plan() -> Plan {
    Plan {
        meta: Meta {
            property: "C08",
            level: "exploration",
            rule: "history + executable model under real concurrency. N client tasks (8..4000) run puts, deletes, reads and contains on few keys (4..16) against one Storage while a maintenance task closes/creates/restores the active blob, forces updates and requests dumps, blobs rotate by a tiny record limit, and H1 delays are injected inside I/O closures. Every client call is logged at the client boundary: invoke(seq) before, return(seq, result) after, seq from one global atomic counter; every write gets a globally unique increasing timestamp and unique value bytes, so each key is a max-register with unique values. Per-key checker (P-compositional, O(n log n)): a completed read/contains must (1) return a value that was written to that key by an operation invoked before the read returned (byte equality), (2) be no older than every write/delete acknowledged before the read was invoked, (3) never go backwards with respect to reads that returned before it was invoked; (4) a filter probe (check_filters / BloomProvider::check_filter) of a key with a put acknowledged before the probe was invoked never answers 'definitely absent'; a share of runs uses tied timestamps with the weaker rule 'value among the candidates with an acceptable timestamp'. At quiescence (all clients done + worker barrier) read/contains of every key equal the max-timestamp acknowledged operation, and - judged after the close against the independently parsed files - the record that is rank-first on disk (timestamp, then blob id, then position: with tied timestamps of concurrent writers the in-memory order must be the file order); after close every blob file is parsed independently: records contiguous to EOF, header and data checksums valid, blob_offset == position, and the multiset of puts on disk == the multiset of acknowledged puts (no loss, no duplication, no interleaving), and blobs_count() / records_count() taken at quiescence equal the number of blob files / records in them. Deadlock monitor (timing-free): 'client operations pending, no operation completed, zero I/O in flight and no file operation during >=160 samples over 8 s' is reported as a deadlock with the pending operations. Non-trivial = run with >=2 blobs or >=64 clients; distinct = hash of the per-key completion order (distinct interleavings observed).",
            assumptions: vec!["schedules are those the OS and tokio produced in this run, widened by injected delays; counted, not enumerated", "TSan/ASan builds of the same workload are part of the thorough tier (tools/san.sh)"],
        },
        shards: 16,
        soft_s: (28, 420),
        exhaustive: None,
        min_evaluations: 30,
        extra: Some(san_extra),
    }
}

/// thorough tier: the same workload in one process built with ThreadSanitizer (-Zbuild-std) and AddressSanitizer
fn san_extra(tier: &str, seed: u64, sh: &mut Shard) {
    if tier != "thorough" {
        return;
    }
    let script = crate::evidence::verif_root().join("tools").join("san.sh");
    for kind in ["thread", "address"] {
        let out = std::process::Command::new(&script).arg(kind).arg((seed % 100_000).to_string()).arg("8").output();
        match out {
            Ok(o) => {
                let text = String::from_utf8_lossy(&o.stdout).to_string();
                let san = text.lines().find(|l| l.starts_with("SAN reports=")).unwrap_or("").to_string();
                let done = text.lines().find(|l| l.starts_with("C08SAN done")).unwrap_or("").to_string();
                if san.is_empty() || done.is_empty() {
                    sh.notes.push(format!("{} sanitizer run inconclusive: {}", kind, text.lines().last().unwrap_or("no output")));
                    continue;
                }
                let reports: u64 = san.split_whitespace().next().and_then(|x| x.strip_prefix("SAN")).map(|_| 0).unwrap_or(0);
                let _ = reports;
                let n: u64 = san.split("reports=").nth(1).and_then(|x| x.split_whitespace().next()).and_then(|x| x.parse().ok()).unwrap_or(0);
                let frames = san.split("pearl_frames=").nth(1).and_then(|x| x.split(" exit=").next()).unwrap_or("").to_string();
                let ops: u64 = done.split("client_operations=").nth(1).and_then(|x| x.split_whitespace().next()).and_then(|x| x.parse().ok()).unwrap_or(0);
                sh.add(&format!("{}_sanitizer_client_operations", kind), ops);
                sh.add(&format!("{}_sanitizer_reports", kind), n);
                if done.contains("violations=0") {
                    sh.add(&format!("{}_sanitizer_runs_clean_oracle", kind), 1);
                } else {
                    sh.violations.push(crate::evidence::Violation { sig: format!("C08/{}-sanitizer-build/oracle-violation", kind), detail: text.lines().filter(|l| l.starts_with("C08SAN violation")).next().unwrap_or("").to_string(), replay: "tools/san.sh".into() });
                }
                if n > 0 && !frames.is_empty() {
                    sh.violations.push(crate::evidence::Violation { sig: format!("C08/{}-sanitizer-report", kind), detail: format!("{} report(s) with pearl frames: {}", n, frames), replay: format!("harness/target-san-{}.last-reports.log", kind) });
                } else if n > 0 {
                    sh.notes.push(format!("{} sanitizer: {} report(s) without pearl frames (dependencies / runtime), see harness/target-san-{}.last-reports.log", kind, n, kind));
                }
            }
            Err(e) => sh.notes.push(format!("{} sanitizer run could not be started: {}", kind, e)),
        }
    }
}

#[derive(Clone, Debug)]
struct OpRec {
    client: u32,
    /// 0 put, 1 delete, 2 read, 3 contains
    kind: u8,
    key: u16,
    ts: u64,
    val: u64,
    size: u32,
    inv: u64,
    ret: u64,
    /// for reads: 0 = NotFound, 1 = Found (val/ts observed), 2 = Deleted(ts), 3 = error
    res: u8,
    obs_ts: u64,
    obs_val: u64,
    obs_ok_bytes: bool,
    err: bool,
}

#[derive(Clone, Debug)]
struct RunCfg {
    clients: usize,
    ops_per_client: usize,
    keys: u16,
    large: bool,
    reopened: bool,
    max_records: Option<u64>,
    maintenance: bool,
    tied: bool,
    delay: bool,
    mt: bool,
    overfull_probe: bool,
}

struct RunOut {
    violation: Option<(String, String)>,
    ops: u64,
    reads_checked: u64,
    blobs: u64,
    records_on_disk: u64,
    rank_first_checked: u64,
    interleaving: u64,
    max_pending: u64,
    deadlock: bool,
    errors: u64,
    accounting_calls: u64,
    inconclusive: Option<String>,
}

struct Shared {
    seq: AtomicU64,
    ts: AtomicU64,
    completed: AtomicU64,
    current: Vec<AtomicU64>,
    accounting_calls: AtomicU64,
}

async fn client(s: Arc<Storage<ArrayKey<8>>>, sh: Arc<Shared>, rc: RunCfg, id: usize, salt: u64, seed: u64) -> Vec<OpRec> {
    let mut rng = Rng::new(seed);
    let mut out = Vec::with_capacity(rc.ops_per_client);
    for i in 0..rc.ops_per_client {
        let key = rng.below(rc.keys as u64) as u16;
        let k = ArrayKey::<8>::from(key_bytes(salt, key, 8));
        let kind = if rc.overfull_probe { 0 } else { rng.weighted(&[45, 8, 32, 15]) as u8 };
        let mut r = OpRec { client: id as u32, kind, key, ts: 0, val: 0, size: 0, inv: 0, ret: 0, res: 0, obs_ts: 0, obs_val: 0, obs_ok_bytes: true, err: false };
        // now and then a client also asks for one of the accounting figures (answers are not judged here: they
        // are transient under concurrency); the calls take the storage's locks in their own order, and a call that
        // never returns is seen by the deadlock monitor like any other pending operation
        if !rc.overfull_probe && rng.chance(1, 10) {
            let mark = sh.seq.fetch_add(1, Ordering::SeqCst);
            sh.current[id].store(mark + 1, Ordering::SeqCst);
            match rng.below(6) {
                0 => {
                    let _ = s.records_count().await;
                }
                1 => {
                    let _ = s.records_count_detailed().await;
                }
                2 => {
                    let _ = s.disk_used().await;
                }
                3 => {
                    let _ = s.blobs_count().await;
                }
                4 => {
                    let _ = s.index_memory().await;
                }
                _ => {
                    let _ = s.records_count_in_active_blob().await;
                }
            }
            sh.current[id].store(0, Ordering::SeqCst);
            sh.accounting_calls.fetch_add(1, Ordering::SeqCst);
        }
        // now and then a filter probe of the key (judged: a key with an acknowledged put is never "definitely absent")
        if !rc.overfull_probe && rng.chance(1, 8) {
            let mut f = OpRec { client: id as u32, kind: 4, key, ts: 0, val: 0, size: 0, inv: 0, ret: 0, res: 1, obs_ts: 0, obs_val: 0, obs_ok_bytes: true, err: false };
            f.inv = sh.seq.fetch_add(1, Ordering::SeqCst);
            sh.current[id].store(f.inv + 1, Ordering::SeqCst);
            if rng.chance(1, 2) {
                if s.check_filters(k.clone()).await == Some(false) {
                    f.res = 0;
                }
            } else {
                f.obs_ts = 1;
                if pearl::BloomProvider::check_filter(&*s, &k).await == pearl::FilterResult::NotContains {
                    f.res = 0;
                }
            }
            f.ret = sh.seq.fetch_add(1, Ordering::SeqCst);
            sh.current[id].store(0, Ordering::SeqCst);
            out.push(f);
        }
        match kind {
            0 => {
                r.ts = if rc.tied { rng.range(1, 3) } else { sh.ts.fetch_add(1, Ordering::SeqCst) };
                r.val = ((id as u64) << 24) | (i as u64 + 1) | (1 << 60);
                r.size = if rc.large { if rng.chance(1, 3) { 100_000 } else { rng.range(8, 6000) as u32 } } else { rng.range(8, 64) as u32 };
                if rc.overfull_probe {
                    r.size = 100_000;
                }
                let data = Bytes::from(value_bytes(r.val, r.size));
                r.inv = sh.seq.fetch_add(1, Ordering::SeqCst);
                sh.current[id].store(r.inv + 1, Ordering::SeqCst);
                let res = s.write(&k, data, BlobRecordTimestamp::new(r.ts)).await;
                r.ret = sh.seq.fetch_add(1, Ordering::SeqCst);
                r.err = res.is_err();
            }
            1 => {
                r.ts = if rc.tied { rng.range(1, 3) } else { sh.ts.fetch_add(1, Ordering::SeqCst) };
                r.inv = sh.seq.fetch_add(1, Ordering::SeqCst);
                sh.current[id].store(r.inv + 1, Ordering::SeqCst);
                let res = s.delete(&k, BlobRecordTimestamp::new(r.ts), false).await;
                r.ret = sh.seq.fetch_add(1, Ordering::SeqCst);
                r.err = res.is_err();
            }
            2 => {
                r.inv = sh.seq.fetch_add(1, Ordering::SeqCst);
                sh.current[id].store(r.inv + 1, Ordering::SeqCst);
                let res = s.read(&k).await;
                r.ret = sh.seq.fetch_add(1, Ordering::SeqCst);
                match res {
                    Ok(ReadResult::Found(b)) => {
                        r.res = 1;
                        r.obs_val = val_of_bytes(&b).unwrap_or(0);
                        r.size = b.len() as u32;
                        r.obs_ok_bytes = b.as_ref() == value_bytes(r.obs_val, b.len() as u32).as_slice();
                    }
                    Ok(ReadResult::Deleted(t)) => {
                        r.res = 2;
                        r.obs_ts = t.into();
                    }
                    Ok(ReadResult::NotFound) => r.res = 0,
                    Err(_) => {
                        r.res = 3;
                        r.err = true;
                    }
                }
            }
            _ => {
                r.inv = sh.seq.fetch_add(1, Ordering::SeqCst);
                sh.current[id].store(r.inv + 1, Ordering::SeqCst);
                let res = s.contains(&k).await;
                r.ret = sh.seq.fetch_add(1, Ordering::SeqCst);
                match res {
                    Ok(ReadResult::Found(t)) => {
                        r.res = 1;
                        r.obs_ts = t.into();
                    }
                    Ok(ReadResult::Deleted(t)) => {
                        r.res = 2;
                        r.obs_ts = t.into();
                    }
                    Ok(ReadResult::NotFound) => r.res = 0,
                    Err(_) => {
                        r.res = 3;
                        r.err = true;
                    }
                }
            }
        }
        sh.current[id].store(0, Ordering::SeqCst);
        sh.completed.fetch_add(1, Ordering::SeqCst);
        out.push(r);
        if rng.chance(1, 8) {
            tokio::task::yield_now().await;
        }
    }
    out
}

/// offline checker over the recorded history
fn check_history(ops: &[OpRec], tied: bool) -> (Option<(String, String)>, u64, u64) {
    let mut by_key: BTreeMap<u16, Vec<&OpRec>> = BTreeMap::new();
    for o in ops {
        by_key.entry(o.key).or_default().push(o);
    }
    let mut reads_checked = 0u64;
    let mut interleaving = 0u64;
    for (key, kops) in by_key.iter() {
        // writes and deletes of this key
        let muts: Vec<&&OpRec> = kops.iter().filter(|o| o.kind <= 1 && !o.err).collect();
        let all_muts: Vec<&&OpRec> = kops.iter().filter(|o| o.kind <= 1).collect();
        let by_val: HashMap<u64, &&OpRec> = all_muts.iter().filter(|o| o.kind == 0).map(|o| (o.val, *o)).collect();
        // acknowledged mutations sorted by return
        let mut acked: Vec<(u64, u64)> = muts.iter().map(|o| (o.ret, o.ts)).collect();
        acked.sort();
        // kind 4 = filter probe: "definitely absent" for a key with a put acknowledged before the probe began
        for f in kops.iter().filter(|o| o.kind == 4 && o.res == 0) {
            if let Some(w) = muts.iter().find(|w| w.kind == 0 && w.ret < f.inv) {
                return (Some(("filter-false-negative-under-concurrency".into(), format!("{}(k{}) answered 'definitely absent' (invoked at {}) although the put of value {:#x} to that key had been acknowledged at {}", if f.obs_ts == 0 { "check_filters" } else { "BloomProvider::check_filter" }, key, f.inv, w.val, w.ret))), reads_checked, interleaving);
            }
        }
        let mut reads: Vec<&&OpRec> = kops.iter().filter(|o| (o.kind == 2 || o.kind == 3) && !o.err).collect();
        reads.sort_by_key(|o| o.inv);
        // completion order hash = the interleaving observed on this key
        let mut comp: Vec<(u64, u32, u8)> = kops.iter().map(|o| (o.ret, o.client, o.kind)).collect();
        comp.sort();
        for (_, c, k) in comp.iter() {
            interleaving = crate::rng::mix(interleaving, ((*c as u64) << 8) | *k as u64);
        }
        // observed timestamp of each read
        let mut obs: Vec<(u64, u64, i128)> = Vec::new(); // (inv, ret, observed ts or -1)
        for r in reads.iter() {
            reads_checked += 1;
            let observed: i128 = match (r.kind, r.res) {
                (_, 0) => -1,
                (2, 1) => {
                    if !r.obs_ok_bytes {
                        return (Some(("torn-or-foreign-bytes".into(), format!("read(k{}) by client {} returned {} bytes that are not the bytes of any written value (value id {:#x})", key, r.client, r.size, r.obs_val))), reads_checked, interleaving);
                    }
                    match by_val.get(&r.obs_val) {
                        Some(w) => {
                            if w.inv > r.ret {
                                return (Some(("value-from-the-future".into(), format!("read(k{}) returned value {:#x} whose write was invoked after the read returned", key, r.obs_val))), reads_checked, interleaving);
                            }
                            if w.size != r.size {
                                return (Some(("torn-or-foreign-bytes".into(), format!("read(k{}) returned {} bytes of value {:#x} written with {} bytes", key, r.size, r.obs_val, w.size))), reads_checked, interleaving);
                            }
                            w.ts as i128
                        }
                        None => {
                            return (Some(("value-never-written-to-key".into(), format!("read(k{}) by client {} returned value {:#x} that was never written to this key", key, r.client, r.obs_val))), reads_checked, interleaving);
                        }
                    }
                }
                (3, 1) | (_, 2) => {
                    // a timestamp: some mutation of that kind with this timestamp must have been invoked before the read returned
                    let want_del = r.res == 2;
                    let ok = all_muts.iter().any(|w| w.ts == r.obs_ts && (w.kind == 1) == want_del && w.inv < r.ret);
                    if !ok {
                        return (Some(("timestamp-never-written-to-key".into(), format!("{}(k{}) reported {} with timestamp {} but no such operation was invoked on the key before it returned", if r.kind == 2 { "read" } else { "contains" }, key, if want_del { "Deleted" } else { "Found" }, r.obs_ts))), reads_checked, interleaving);
                    }
                    r.obs_ts as i128
                }
                _ => -1,
            };
            obs.push((r.inv, r.ret, observed));
        }
        // rule 2: not older than everything acknowledged before the read was invoked
        let mut ai = 0usize;
        let mut run_max: i128 = -1;
        for (inv, _ret, observed) in obs.iter() {
            while ai < acked.len() && acked[ai].0 < *inv {
                run_max = run_max.max(acked[ai].1 as i128);
                ai += 1;
            }
            if *observed < run_max {
                let sig = if *observed < 0 { "stale-read/not-found-after-acknowledged-write" } else { "stale-read/older-than-acknowledged-write" };
                return (Some((sig.into(), format!("a read of k{} invoked at seq {} observed timestamp {} although an operation with timestamp {} had been acknowledged before (tied mode {})", key, inv, observed, run_max, tied))), reads_checked, interleaving);
            }
        }
        // rule 3: reads never go backwards in real time
        let mut by_ret: Vec<(u64, i128)> = obs.iter().map(|o| (o.1, o.2)).collect();
        by_ret.sort();
        let mut ri = 0usize;
        let mut seen_max: i128 = -1;
        for (inv, _ret, observed) in obs.iter() {
            while ri < by_ret.len() && by_ret[ri].0 < *inv {
                seen_max = seen_max.max(by_ret[ri].1);
                ri += 1;
            }
            if *observed < seen_max {
                return (Some(("reads-go-backwards".into(), format!("a read of k{} invoked at seq {} observed timestamp {} after an earlier read had already returned timestamp {}", key, inv, observed, seen_max))), reads_checked, interleaving);
            }
        }
    }
    (None, reads_checked, interleaving)
}

async fn run(dir: std::path::PathBuf, cfg: Cfg, rc: RunCfg, seed: u64) -> RunOut {
    let mut out = RunOut { violation: None, ops: 0, reads_checked: 0, blobs: 0, records_on_disk: 0, rank_first_checked: 0, interleaving: 0, max_pending: 0, deadlock: false, errors: 0, accounting_calls: 0, inconclusive: None };
    let mut rng = Rng::new(seed);
    let mut s: Storage<ArrayKey<8>> = match builder_for(&cfg, &dir).build() {
        Ok(s) => s,
        Err(e) => {
            out.inconclusive = Some(format!("build: {:#}", e));
            return out;
        }
    };
    if let Err(e) = s.init().await {
        out.violation = Some(("init-failed".into(), format!("{:#}", e)));
        return out;
    }
    let salt = cfg.key_salt;
    let mut base_ops: Vec<OpRec> = Vec::new();
    let shared = Arc::new(Shared { seq: AtomicU64::new(1), ts: AtomicU64::new(10), completed: AtomicU64::new(0), current: (0..rc.clients + 1).map(|_| AtomicU64::new(0)).collect(), accounting_calls: AtomicU64::new(0) });
    if rc.reopened {
        // a few records, clean close, reopen: the active blob is a reopened file
        for k in 0..rc.keys.min(4) {
            let ts = shared.ts.fetch_add(1, Ordering::SeqCst);
            let val = (0xBA5E << 32) | k as u64 | (1 << 60);
            let inv = shared.seq.fetch_add(1, Ordering::SeqCst);
            let r = s.write(ArrayKey::<8>::from(key_bytes(salt, k, 8)), Bytes::from(value_bytes(val, 30)), BlobRecordTimestamp::new(ts)).await;
            let ret = shared.seq.fetch_add(1, Ordering::SeqCst);
            base_ops.push(OpRec { client: u32::MAX, kind: 0, key: k, ts, val, size: 30, inv, ret, res: 0, obs_ts: 0, obs_val: 0, obs_ok_bytes: true, err: r.is_err() });
        }
        if s.close().await.is_err() {
            out.inconclusive = Some("close of the base session failed".into());
            return out;
        }
        s = builder_for(&cfg, &dir).build().unwrap();
        if let Err(e) = s.init().await {
            out.violation = Some(("init-failed".into(), format!("{:#}", e)));
            return out;
        }
    }
    if rc.max_records.is_some() {
        // rotation by size is debounced by the blob's age: let the first blob grow old enough
        tokio::time::sleep(Duration::from_millis(215)).await;
    }
    tap::arm(&dir, false, false);
    if rc.delay {
        let n = rng.range(0, 200);
        tap::set_faults(&dir, vec![tap::Fault { kinds: vec![tap::Kind::Write], suffix: ".blob".into(), nth: n, sticky: false, action: tap::Action::Delay(rng.range(1, 15)) }, tap::Fault { kinds: vec![tap::Kind::Write, tap::Kind::Sync], suffix: ".index".into(), nth: rng.range(0, 6), sticky: false, action: tap::Action::Delay(rng.range(1, 30)) }]);
    }
    let s = Arc::new(s);
    let mut handles = Vec::new();
    for c in 0..rc.clients {
        handles.push(tokio::spawn(client(s.clone(), shared.clone(), rc.clone(), c, salt, crate::rng::mix(seed, c as u64))));
    }
    // the maintenance task is asked to stop between two calls and then awaited: aborting it in the middle of a
    // call would cancel that call (C14's subject) and leave its detached remainder running into close()
    let maint_stop = Arc::new(std::sync::atomic::AtomicBool::new(false));
    let maint = if rc.maintenance {
        let s2 = s.clone();
        let mseed = rng.next();
        let stop = maint_stop.clone();
        Some(tokio::spawn(async move {
            let mut r = Rng::new(mseed);
            loop {
                tokio::time::sleep(Duration::from_micros(r.range(200, 3000))).await;
                if stop.load(Ordering::SeqCst) {
                    return;
                }
                match r.below(6) {
                    0 => {
                        let _ = s2.try_close_active_blob().await;
                        let _ = s2.try_create_active_blob().await;
                    }
                    1 => {
                        let _ = s2.try_close_active_blob().await;
                        let _ = s2.try_restore_active_blob().await;
                    }
                    2 => s2.force_update_active_blob(|_| true).await,
                    3 => {
                        let _ = s2.free_excess_resources().await;
                    }
                    4 => {
                        s2.close_active_blob_in_background().await;
                        s2.create_active_blob_in_background().await;
                    }
                    _ => {
                        let _ = s2.fsyncdata().await;
                    }
                }
            }
        }))
    } else {
        None
    };
    // supervisor: progress and deadlock monitor
    let total = (rc.clients * rc.ops_per_client) as u64;
    let mut last = 0u64;
    let mut quiet = 0u64;
    let mut last_events = tap::count(&dir);
    let t0 = Instant::now();
    loop {
        tokio::time::sleep(Duration::from_millis(50)).await;
        let done = shared.completed.load(Ordering::SeqCst);
        let pending = shared.current.iter().filter(|c| c.load(Ordering::SeqCst) != 0).count() as u64;
        out.max_pending = out.max_pending.max(pending);
        if done >= total {
            break;
        }
        let ev = tap::count(&dir);
        if done == last && tap::inflight() == 0 && ev == last_events && pending > 0 {
            quiet += 1;
        } else {
            quiet = 0;
        }
        last = done;
        last_events = ev;
        if quiet >= 160 {
            out.deadlock = true;
            let pend: Vec<u64> = shared.current.iter().map(|c| c.load(Ordering::SeqCst)).filter(|c| *c != 0).take(5).collect();
            let cls = if rc.overfull_probe { "overfull-blob-more-than-1024-writers" } else { "general" };
            out.violation = Some((format!("deadlock/{}", cls), format!("{} of {} operations completed, then {} client operations stayed pending (invoke seqs {:?}...) with zero I/O in flight and no file operation during {} samples over {:?}; worker alive: {}", done, total, pending, pend, quiet, Duration::from_millis(50 * quiet), s.verif_worker_alive())));
            break;
        }
        if t0.elapsed() > Duration::from_secs(120) {
            out.inconclusive = Some(format!("watchdog: {} of {} operations after 120 s (I/O still in flight)", done, total));
            break;
        }
    }
    maint_stop.store(true, Ordering::SeqCst);
    if let Some(m) = maint {
        if out.deadlock || out.inconclusive.is_some() {
            m.abort();
            let _ = m.await;
        } else if tokio::time::timeout(Duration::from_secs(60), m).await.is_err() {
            out.inconclusive = Some("the maintenance task did not finish its current call within 60 s after all clients were done".into());
        }
    }
    if out.deadlock || out.inconclusive.is_some() {
        for h in handles {
            h.abort();
        }
        let _ = tap::disarm(&dir);
        // the storage cannot be closed (close would hang as well): leak it
        std::mem::forget(s);
        return out;
    }
    let mut ops: Vec<OpRec> = base_ops;
    for h in handles {
        match h.await {
            Ok(v) => ops.extend(v),
            Err(e) => {
                out.violation = Some(("client-task-panicked".into(), format!("{}", e)));
                let _ = tap::disarm(&dir);
                return out;
            }
        }
    }
    tap::clear_faults(&dir);
    out.ops = ops.len() as u64;
    out.accounting_calls = shared.accounting_calls.load(Ordering::SeqCst);
    // an operation that returned an error is not acknowledged: it may or may not have taken effect
    out.errors = ops.iter().filter(|o| o.err).count() as u64;
    let (v, rc_n, inter) = check_history(&ops, rc.tied);
    out.reads_checked = rc_n;
    out.interleaving = inter;
    if let Some(v) = v {
        out.violation = Some(v);
        let _ = tap::disarm(&dir);
        return out;
    }
    // ---- quiescence
    if !s.verif_barrier(true).await {
        out.violation = Some(("worker-dead".into(), "the worker died during the concurrent run".into()));
        let _ = tap::disarm(&dir);
        return out;
    }
    let mut top: BTreeMap<u16, Vec<&OpRec>> = BTreeMap::new();
    let maybe: Vec<&OpRec> = ops.iter().filter(|o| o.kind <= 1 && o.err).collect();
    for o in ops.iter().filter(|o| o.kind <= 1 && !o.err) {
        let e = top.entry(o.key).or_default();
        match e.first() {
            Some(f) if f.ts > o.ts => {}
            Some(f) if f.ts == o.ts => e.push(o),
            _ => {
                e.clear();
                e.push(o);
            }
        }
    }
    // what read() answered at quiescence, per key: (found?, value id or marker timestamp); judged a second time after
    // the close against the rank-first record in the blob files
    let mut quiescent_reads: Vec<(u16, bool, u64)> = Vec::new();
    let mut quiescent_info: BTreeMap<u16, String> = BTreeMap::new();
    for (key, cands) in top.iter() {
        let k = ArrayKey::<8>::from(key_bytes(salt, *key, 8));
        let got = s.read(&k).await;
        match &got {
            Ok(ReadResult::Found(b)) => quiescent_reads.push((*key, true, val_of_bytes(b).unwrap_or(0))),
            Ok(ReadResult::Deleted(t)) => quiescent_reads.push((*key, false, (*t).into())),
            _ => {}
        }
        // for the report only: the version list and the filter answer at the same moment
        let mut info = String::new();
        if let Ok(es) = s.read_all_with_deletion_marker(&k).await {
            let mut v = Vec::new();
            for e in es.iter() {
                let ts: u64 = e.timestamp().into();
                v.push((ts, e.is_deleted()));
            }
            info.push_str(&format!("read_all_with_deletion_marker (ts, marker?) = {:?}; ", v));
        }
        info.push_str(&format!("has_active_blob = {}; records_count_detailed = {:?}; contains = {:?}", s.has_active_blob().await, s.records_count_detailed().await, s.contains(&k).await.map(|r| format!("{:?}", r)).unwrap_or_default()));
        quiescent_info.insert(*key, info);
        let ok = match &got {
            Ok(ReadResult::Found(b)) => cands.iter().any(|c| c.kind == 0 && b.as_ref() == value_bytes(c.val, c.size).as_slice()),
            Ok(ReadResult::Deleted(t)) => {
                let t: u64 = (*t).into();
                cands.iter().any(|c| c.kind == 1 && c.ts == t)
            }
            _ => false,
        };
        let ok = ok || match &got {
            // an operation that returned an error may still have taken effect
            Ok(ReadResult::Found(b)) => maybe.iter().any(|c| c.key == *key && c.kind == 0 && c.ts >= cands[0].ts && b.as_ref() == value_bytes(c.val, c.size).as_slice()),
            Ok(ReadResult::Deleted(t)) => {
                let t: u64 = (*t).into();
                maybe.iter().any(|c| c.key == *key && c.kind == 1 && c.ts == t && t >= cands[0].ts)
            }
            _ => false,
        };
        if !ok {
            let desc = match &got {
                Ok(ReadResult::Found(b)) => format!("Found(value {:#x})", val_of_bytes(b).unwrap_or(0)),
                Ok(ReadResult::Deleted(t)) => format!("Deleted({})", t),
                Ok(ReadResult::NotFound) => "NotFound".into(),
                Err(e) => format!("Err({:#})", e),
            };
            out.violation = Some(("quiescent-state-differs-from-model".into(), format!("at quiescence read(k{}) = {} but the acknowledged operation with the greatest timestamp {} is {}", key, desc, cands[0].ts, if cands[0].kind == 0 { format!("put value {:#x}", cands[0].val) } else { "a delete".into() })));
            let _ = tap::disarm(&dir);
            return out;
        }
    }
    // accounting at quiescence, compared with the files after close (close only dumps indexes)
    let acct_blobs = s.blobs_count().await as u64;
    let acct_records = s.records_count().await as u64;
    let s = match Arc::try_unwrap(s) {
        Ok(s) => s,
        Err(_) => {
            out.inconclusive = Some("storage still shared at the end of the run".into());
            let _ = tap::disarm(&dir);
            return out;
        }
    };
    match close_monitored(s, &dir, 8).await {
        CloseOutcome::Returned(Ok(())) => {}
        CloseOutcome::Returned(Err(e)) => {
            out.violation = Some(("close-failed".into(), e));
            let _ = tap::disarm(&dir);
            return out;
        }
        CloseOutcome::HungQuiescent(n) => {
            out.violation = Some(("deadlock/close".into(), format!("close() did not return; system quiescent during {} samples", n)));
            let _ = tap::disarm(&dir);
            return out;
        }
        CloseOutcome::HungBusy => {
            out.inconclusive = Some("close() still busy after 8 s".into());
            let _ = tap::disarm(&dir);
            return out;
        }
    }
    let _ = tap::disarm(&dir);
    // ---- independent parse of every blob file
    let mut on_disk: HashMap<(Vec<u8>, u64, u64), u32> = HashMap::new(); // (key, ts, val) -> count
    let mut markers: Vec<(Vec<u8>, u64)> = Vec::new();
    // per key: (timestamp, blob id, position in the blob, is marker, value id) of every record on disk
    let mut placed: HashMap<Vec<u8>, Vec<(u64, usize, u64, bool, u64)>> = HashMap::new();
    for id in crate::drive::dir_ids(&dir) {
        out.blobs += 1;
        let p = dir.join(format!("t.{}.blob", id));
        let bp = match parse::parse_blob_file(&p) {
            Ok(b) => b,
            Err(e) => {
                out.inconclusive = Some(e.to_string());
                return out;
            }
        };
        if !bp.complete_and_sound() {
            let bad = bp.records.iter().find(|r| !r.sound());
            out.violation = Some(("blob-file-not-sound".into(), format!("{}: independent parse: error {:?}, parsed to {} of {} bytes, first unsound record: {:?}", p.display(), bp.error, bp.end, bp.len, bad.map(|r| (r.pos, r.blob_offset, r.header_crc_ok, r.data_crc_ok)))));
            return out;
        }
        for r in bp.records.iter() {
            out.records_on_disk += 1;
            placed.entry(r.key.clone()).or_default().push((r.ts, id, r.pos as u64, r.deleted(), if r.deleted() { 0 } else { val_of_bytes(&r.data).unwrap_or(0) }));
            if r.deleted() {
                markers.push((r.key.clone(), r.ts));
            } else {
                let v = val_of_bytes(&r.data).unwrap_or(0);
                if r.data != value_bytes(v, r.data.len() as u32) {
                    out.violation = Some(("record-bytes-on-disk-differ".into(), format!("{}: record at {} holds bytes that are not a written value", p.display(), r.pos)));
                    return out;
                }
                *on_disk.entry((r.key.clone(), r.ts, v)).or_insert(0) += 1;
            }
        }
    }
    // the answer at quiescence must be the rank-first record of the key as the FILES have it: greatest timestamp, then
    // most recently created blob, then most recently appended (with tied timestamps of concurrent writers this is the
    // only place where the order of the in-memory index and the order in the file can be told apart without a restart)
    for (key, found, v) in quiescent_reads.iter() {
        if let Some(recs) = placed.get(&key_bytes(salt, *key, 8)) {
            if let Some(first) = recs.iter().max_by_key(|r| (r.0, r.1, r.2)) {
                let agrees = if first.3 { !*found && *v == first.0 } else { *found && *v == first.4 };
                if !agrees {
                    out.violation = Some(("quiescent-read-is-not-the-rank-first-record-on-disk".into(), format!("at quiescence read(k{}) = {} but the rank-first record of that key in the blob files is {} (ts {}, blob {}, offset {}): the order of the in-memory index differs from the order in the file, a regenerated index will answer differently; at the same moment: {}; all records of the key on disk (ts, blob, offset, marker?, value): {:?}", key, if *found { format!("Found(value {:#x})", v) } else { format!("Deleted({})", v) }, if first.3 { "a deletion marker".to_string() } else { format!("value {:#x}", first.4) }, first.0, first.1, first.2, quiescent_info.get(key).cloned().unwrap_or_default(), { let mut v = recs.clone(); v.sort_by_key(|r| (r.1, r.2)); v.iter().map(|r| (r.0, r.1, r.2, r.3, format!("{:#x}", r.4))).collect::<Vec<_>>() })));
                    return out;
                }
                out.rank_first_checked += 1;
            }
        }
    }
    if dir.join("corrupted").exists() {
        out.violation = Some(("blob-quarantined".into(), "a blob was quarantined during a fault-free concurrent run".into()));
        return out;
    }
    if acct_blobs != out.blobs {
        out.violation = Some(("quiescent-accounting/blobs_count-differs-from-files".into(), format!("at quiescence blobs_count() = {} but the work dir holds {} blob files (blobs the storage does not know: they re-appear as extra blobs after a restart)", acct_blobs, out.blobs)));
        return out;
    }
    if acct_records != out.records_on_disk {
        out.violation = Some(("quiescent-accounting/records_count-differs-from-files".into(), format!("at quiescence records_count() = {} but the blob files hold {} records", acct_records, out.records_on_disk)));
        return out;
    }
    for o in ops.iter().filter(|o| o.kind == 0) {
        let k = (key_bytes(salt, o.key, 8), o.ts, o.val);
        match on_disk.get(&k) {
            Some(1) => {}
            None if o.err => {}
            Some(n) => {
                out.violation = Some(("acknowledged-write-duplicated".into(), format!("value {:#x} of k{} is stored {} times", o.val, o.key, n)));
                return out;
            }
            None => {
                out.violation = Some(("acknowledged-write-lost".into(), format!("acknowledged write of value {:#x} ({} B, ts {}) to k{} by client {} is in no blob file", o.val, o.size, o.ts, o.key, o.client)));
                return out;
            }
        }
    }
    let n_puts = ops.iter().filter(|o| o.kind == 0 && (!o.err || on_disk.contains_key(&(key_bytes(salt, o.key, 8), o.ts, o.val)))).count();
    if on_disk.values().map(|v| *v as usize).sum::<usize>() != n_puts {
        out.violation = Some(("unknown-record-on-disk".into(), format!("{} put records on disk, {} acknowledged puts", on_disk.len(), n_puts)));
        return out;
    }
    for o in ops.iter().filter(|o| o.kind == 1 && !o.err) {
        let k = key_bytes(salt, o.key, 8);
        if !markers.iter().any(|m| m.0 == k && m.1 == o.ts) {
            out.violation = Some(("acknowledged-delete-lost".into(), format!("acknowledged delete(k{}, ts {}) left no deletion marker in any blob", o.key, o.ts)));
            return out;
        }
    }
    out
}

/// Dedicated schedule: two creators of blobs race. A forced update of the active blob (served by the worker) is held
/// inside the creation of its new blob file by a delay failpoint; meanwhile a client closes the active blob, creates a
/// new one itself (which gets the next id), writes a record and closes it; then the worker installs its (older-id)
/// blob, and a second record of the SAME key and timestamp goes there. The answers to every query before the close
/// must equal the answers after a restart (same rank order of the two tied records in both sessions).
async fn racing_creators_scenario(dir: std::path::PathBuf, cfg: Cfg, delay_ms: u64) -> Result<(), (String, String)> {
    let mk = || crate::drive::builder_for(&cfg, &dir).build().map_err(|e| ("build".to_string(), format!("{:#}", e)));
    let mut s: Storage<ArrayKey<8>> = mk()?;
    s.init().await.map_err(|e| ("init".to_string(), format!("{:#}", e)))?;
    let key = ArrayKey::<8>::from(key_bytes(cfg.key_salt, 1, 8));
    let w = |v: u64| Bytes::from(value_bytes(v, 24));
    s.write(&key, w(1), BlobRecordTimestamp::new(1)).await.map_err(|e| ("write".to_string(), format!("{:#}", e)))?;
    tap::arm(&dir, false, false);
    tap::set_faults(&dir, vec![tap::Fault { kinds: vec![tap::Kind::Create], suffix: ".blob".into(), nth: 0, sticky: false, action: tap::Action::Delay(delay_ms) }]);
    // the worker starts creating the next blob (id 1) and is held inside the file creation
    s.force_update_active_blob(|_| true).await;
    tokio::time::sleep(Duration::from_millis(delay_ms / 4)).await;
    // meanwhile: close, create (id 2), write, close
    let _ = s.try_close_active_blob().await;
    let _ = s.try_create_active_blob().await;
    s.write(&key, w(2), BlobRecordTimestamp::new(5)).await.map_err(|e| ("write".to_string(), format!("{:#}", e)))?;
    // the worker installs its blob now (or has done so already)
    if !s.verif_barrier(true).await {
        return Err(("worker-dead".into(), "worker died".into()));
    }
    s.write(&key, w(3), BlobRecordTimestamp::new(5)).await.map_err(|e| ("write".to_string(), format!("{:#}", e)))?;
    let _ = s.verif_barrier(true).await;
    let _ = tap::disarm(&dir);
    let order_before: Vec<usize> = s.records_count_detailed().await.iter().map(|d| d.0).collect();
    async fn snap(s: &Storage<ArrayKey<8>>, key: &ArrayKey<8>) -> (String, Vec<String>) {
        let r = match s.read(key).await {
            Ok(ReadResult::Found(b)) => format!("Found({:#x})", val_of_bytes(&b).unwrap_or(0)),
            Ok(ReadResult::Deleted(t)) => format!("Deleted({})", t),
            Ok(ReadResult::NotFound) => "NotFound".to_string(),
            Err(e) => format!("Err({:#})", e),
        };
        let mut list = Vec::new();
        if let Ok(es) = s.read_all(key).await {
            for e in es {
                if let Ok(rec) = e.load().await {
                    list.push(format!("{:#x}", val_of_bytes(&rec.into_data()).unwrap_or(0)));
                }
            }
        }
        (r, list)
    }
    let before = snap(&s, &key).await;
    s.close().await.map_err(|e| ("close".to_string(), format!("{:#}", e)))?;
    let mut s2: Storage<ArrayKey<8>> = mk()?;
    s2.init().await.map_err(|e| ("init-after-restart".to_string(), format!("{:#}", e)))?;
    let after = snap(&s2, &key).await;
    let order_after: Vec<usize> = s2.records_count_detailed().await.iter().map(|d| d.0).collect();
    let _ = s2.close().await;
    if before != after {
        return Err(("racing-blob-creators/answers-differ-after-restart".into(), format!("a forced update of the active blob was creating its blob file ({} ms) while a client closed the active blob, created the next one, wrote value 0x2 (ts 5) and the worker then installed its blob, into which value 0x3 (ts 5) was written. Before the close: read = {}, read_all = {:?}, blobs in the order the storage lists them: {:?}; after a restart: read = {}, read_all = {:?}, blobs listed: {:?}", delay_ms, before.0, before.1, order_before, after.0, after.1, order_after)));
    }
    Ok(())
}

fn matrix(rng: &mut Rng, thorough: bool, n: u64) -> RunCfg {
    let clients = match n % 9 {
        0 | 1 => 8,
        2 | 3 | 4 => 64,
        5 | 6 => 512,
        7 => 1500,
        _ => {
            if thorough {
                4000
            } else {
                1000
            }
        }
    };
    let large = rng.chance(1, 3) && clients <= 1500;
    let ops_per_client = if clients >= 1000 { 3 } else if clients >= 512 { 6 } else if clients >= 64 { 30 } else { 150 };
    RunCfg {
        clients,
        ops_per_client: if large { ops_per_client.min(20) } else { ops_per_client },
        keys: *rng.pick(&[4u16, 8, 16]),
        large,
        reopened: rng.chance(1, 2),
        max_records: if rng.chance(2, 3) { Some(*rng.pick(&[20u64, 100, 500])) } else { None },
        maintenance: rng.chance(1, 2),
        tied: rng.chance(1, 5),
        delay: rng.chance(1, 2),
        mt: rng.chance(3, 4),
        overfull_probe: false,
    }
}

pub fn shard(ctx: &Ctx) -> Shard {
    let mut sh = Shard::default();
    let mut rng = Rng::new(ctx.shard_seed());
    let mut n = ctx.shard as u64;
    let mut probes = 0;
    while ctx.time_left() {
        if (n / ctx.shards as u64) % 8 == 3 {
            let mut cfg = Cfg::default_for(4, 0);
            cfg.mt = true;
            cfg.key_salt = rng.next();
            cfg.bloom = (n % 2) as u8;
            cfg.group = *rng.pick(&[2usize, 4, 8]);
            let delay = rng.range(120, 400);
            let dir = new_dir("c08r-");
            let r = block_on_catch(true, racing_creators_scenario(dir.clone(), cfg.clone(), delay));
            rm_dir(&dir);
            n += ctx.shards as u64;
            sh.evaluations += 1;
            let replay = json!({"check": "c08-racing-creators", "cfg": cfg.to_json(), "delay_ms": delay});
            match r {
                Ok(Ok(())) => {
                    sh.add("racing_blob_creators_scenarios", 1);
                    sh.nontrivial.insert(fnv(format!("rc{}|{}", delay, cfg.group).as_bytes()));
                }
                Ok(Err((sig, d))) => sh.violation(&ctx.known, "C08", ctx.seed, &format!("C08/{}", sig), &d, replay),
                Err(p) => sh.violation(&ctx.known, "C08", ctx.seed, "C08/racing-blob-creators/panic", &p, replay),
            }
            continue;
        }
        let mut rc = matrix(&mut rng, ctx.thorough(), n);
        // the dedicated probe for the >1024-writers deadlock (kept apart so that the general exploration
        // keeps running around it): one per shard run in thorough, shard 0 only in quick
        if probes == 0 && (ctx.thorough() || ctx.shard == 0) && n >= ctx.shards as u64 {
            rc = RunCfg { clients: 1500, ops_per_client: 1, keys: 8, large: true, reopened: false, max_records: Some(3), maintenance: false, tied: false, delay: false, mt: true, overfull_probe: true };
            probes += 1;
        }
        let mut cfg = Cfg::default_for(rc.keys, 0);
        cfg.mt = rc.mt;
        cfg.key_salt = rng.next();
        cfg.bloom = (n % 2) as u8;
        cfg.group = *rng.pick(&[2usize, 4, 8]);
        cfg.max_records = rc.max_records;
        cfg.max_dirty = *rng.pick(&[None, Some(4096), Some(0)]);
        let dir = new_dir("c08-");
        let seed = rng.next();
        let r = block_on_catch(cfg.mt, run(dir.clone(), cfg.clone(), rc.clone(), seed));
        rm_dir(&dir);
        n += ctx.shards as u64;
        sh.evaluations += 1;
        let desc = json!({"clients": rc.clients, "ops_per_client": rc.ops_per_client, "keys": rc.keys, "large_values": rc.large, "reopened_blob": rc.reopened, "record_limit": rc.max_records, "maintenance_task": rc.maintenance, "tied_timestamps": rc.tied, "injected_delays": rc.delay, "runtime": if rc.mt { "multi-thread" } else { "current-thread" }, "overfull_probe": rc.overfull_probe});
        let replay = json!({"check": "c08", "run": desc, "cfg": cfg.to_json(), "seed": seed});
        match r {
            Ok(out) => {
                sh.add("client_operations", out.ops);
                sh.add("operations_that_returned_an_error", out.errors);
                sh.add("reads_checked_against_history", out.reads_checked);
                sh.add("blob_files_parsed", out.blobs);
                sh.add("concurrent_accounting_calls", out.accounting_calls);
                sh.add("records_on_disk_matched", out.records_on_disk);
                sh.add("quiescent_reads_equal_rank_first_record_on_disk", out.rank_first_checked);
                sh.max("max_concurrently_pending_operations", out.max_pending);
                sh.add(&format!("runs_clients_{:04}", rc.clients), 1);
                sh.add(if rc.mt { "runs_multi_thread" } else { "runs_current_thread" }, 1);
                if rc.reopened {
                    sh.add("runs_reopened_blob", 1);
                }
                if rc.large {
                    sh.add("runs_large_values", 1);
                }
                if out.blobs >= 2 {
                    sh.add("runs_with_rotation", 1);
                }
                sh.set_insert("interleavings", out.interleaving);
                if out.blobs >= 2 || rc.clients >= 64 {
                    sh.nontrivial.insert(out.interleaving ^ fnv(desc.to_string().as_bytes()));
                }
                if sh.samples.len() < 2 {
                    sh.sample(json!({"run": desc, "operations": out.ops, "blobs": out.blobs, "reads_checked": out.reads_checked}));
                }
                if let Some(i) = out.inconclusive {
                    sh.inconclusive.push(i);
                }
                if let Some((sig, detail)) = out.violation {
                    sh.violation(&ctx.known, "C08", ctx.seed, &format!("C08/{}", sig), &detail, replay);
                }
            }
            Err(p) => sh.violation(&ctx.known, "C08", ctx.seed, "C08/panic", &p, replay),
        }
    }
    sh
}

/// `pv c08san <seed> <runs>`: a few concurrent runs in one process (for the sanitizer builds, tools/san.sh)
pub fn san_main(args: &[String]) -> i32 {
    crate::runner::install_panic_hook();
    let seed: u64 = args.first().and_then(|s| s.parse().ok()).unwrap_or(1);
    let runs: u64 = args.get(1).and_then(|s| s.parse().ok()).unwrap_or(6);
    let mut rng = Rng::new(seed ^ 0x5A17);
    let mut ops = 0u64;
    let mut bad = 0;
    for n in 0..runs {
        let mut rc = matrix(&mut rng, false, n % 5);
        rc.clients = rc.clients.min(64);
        rc.ops_per_client = rc.ops_per_client.min(25);
        let mut cfg = Cfg::default_for(rc.keys, 0);
        cfg.mt = true;
        cfg.key_salt = rng.next();
        cfg.bloom = (n % 2) as u8;
        cfg.max_records = rc.max_records;
        cfg.max_dirty = Some(4096);
        let dir = new_dir("c08san-");
        let s = rng.next();
        let r = block_on_catch(true, run(dir.clone(), cfg, rc.clone(), s));
        rm_dir(&dir);
        match r {
            Ok(out) => {
                ops += out.ops;
                if let Some((sig, d)) = out.violation {
                    println!("C08SAN violation {}: {}", sig, d);
                    bad += 1;
                }
            }
            Err(p) => {
                println!("C08SAN panic {}", p);
                bad += 1;
            }
        }
    }
    println!("C08SAN done runs={} client_operations={} violations={}", runs, ops, bad);
    crate::runner::cleanup_scratch();
    if bad > 0 {
        1
    } else {
        0
    }
}
