//! C09 - on-disk B+tree index answers exactly like the in-memory index it was built from.
//!
//! Engine 1: H3 index probe (push / dump / load / get_latest / get_all) over systematically
//! enumerated shapes. Engine 2 (end-to-end through Storage with 71- and 503-byte keys) is `storage_engine` below.

use crate::evidence::{Meta, Shard};
use crate::parse;
use crate::rng::{fnv, Rng};
use crate::runner::{block_on_catch, new_dir, rm_dir, Ctx, Plan};
use pearl::verif::IndexProbe;
use pearl::ArrayKey;
use serde_json::json;
use std::collections::BTreeMap;

pub fn plan() -> Plan {
    Plan {
        meta: Meta {
            property: "C09",
            level: "exploration",
            rule: "differential: for each enumerated shape a header multiset is pushed into the real in-memory index (H3 probe); get_latest / get_all_with_deletion_marker / count are recorded for every present key and for absent keys below, between every adjacent pair and above; the index is dumped and the same queries are repeated on the B+tree file (must be identical tuples in identical order), after re-opening the file, and after loading it back into memory; answers are also compared with the harness' own expectation (ts desc, push order desc, cut after first marker) and the file is parsed independently (sorted leaves, hash, count). Shapes: key lengths {1,2,3,4,7,8,16,32,34,71,128,184,199,455,967,1000} (leaf blocks: 4096 mod header size = 0 for 7/71/199/455/967, = 1 for 8/34, = size-1 for 184; inner nodes: a full node is exactly 4096 bytes for 196/264/332/400/502 and would be 4097..4104 bytes with one child too many for 48/65/138/284/503/576) x key counts sweeping through every last-leaf remainder and 1..3+ inner levels x version runs of length {B-1,B,B+1,2B,7B} (B = headers per 4 KiB block) at first/middle/last key, random runs, timestamp ties, markers at top/middle/bottom; sequential and random keys. Engine 2: the real Storage with 71- and 503-byte keys is bulk-loaded with key counts around the one- and two-inner-level thresholds, and the whole query surface is compared with the model with the index in memory, dumped, after restart and after a delete-triggered reload + re-dump. A shape is non-trivial when the tree has >=1 inner node or a run longer than one block; distinct = hash of the shape description.",
            assumptions: vec!["the probe builds headers with the same layout arithmetic as the write path (blob_offset / checksum patching)", "verdict holds for the shapes enumerated for this seed"],
        },
        shards: 16,
        soft_s: (25, 600),
        exhaustive: None,
        min_evaluations: 100,
        extra: None,
    }
}

#[derive(Clone, Debug)]
struct Shape {
    keylen: usize,
    /// versions per key, in key order: each version = (ts, deleted)
    keys: Vec<Vec<(u64, bool)>>,
    random_keys: bool,
    bloom: bool,
    desc: String,
}

type H = (u64, bool, u64, u64, u64);

fn be_key(n: usize, v: u64) -> Vec<u8> {
    let mut k = vec![0u8; n];
    let b = v.to_be_bytes();
    let take = n.min(8);
    k[n - take..].copy_from_slice(&b[8 - take..]);
    k
}

fn max_key_val(n: usize) -> u64 {
    if n >= 8 {
        u64::MAX
    } else {
        (1u64 << (8 * n)) - 1
    }
}

/// expectation for one key: versions in push order -> rank order (ts desc, push order desc), cut after first marker
fn expect_list(versions: &[(u64, bool, u64)]) -> Vec<(u64, bool, u64)> {
    let mut v: Vec<(usize, (u64, bool, u64))> = versions.iter().cloned().enumerate().collect();
    v.sort_by(|a, b| b.1 .0.cmp(&a.1 .0).then(b.0.cmp(&a.0)));
    let mut out = Vec::new();
    for (_, x) in v {
        let del = x.1;
        out.push(x);
        if del {
            break;
        }
    }
    out
}

struct Obs {
    latest: Vec<Option<H>>,
    all: Vec<Vec<H>>,
    absent_latest: Vec<Option<H>>,
    absent_all: Vec<usize>,
    count: usize,
    filter_present: Vec<bool>,
}

async fn observe<const N: usize>(p: &IndexProbe<ArrayKey<N>>, present: &[Vec<u8>], absent: &[Vec<u8>]) -> Result<Obs, String> {
    let mut o = Obs { latest: vec![], all: vec![], absent_latest: vec![], absent_all: vec![], count: p.count(), filter_present: vec![] };
    for k in present {
        let key = ArrayKey::<N>::from(k.clone());
        o.latest.push(p.get_latest(&key).await.map_err(|e| format!("get_latest failed: {:#}", e))?);
        o.all.push(p.get_all_with_deletion_marker(&key).await.map_err(|e| format!("get_all failed: {:#}", e))?);
        o.filter_present.push(p.filter_may_contain(&key).await);
    }
    for k in absent {
        let key = ArrayKey::<N>::from(k.clone());
        o.absent_latest.push(p.get_latest(&key).await.map_err(|e| format!("get_latest(absent) failed: {:#}", e))?);
        o.absent_all.push(p.get_all_with_deletion_marker(&key).await.map_err(|e| format!("get_all(absent) failed: {:#}", e))?.len());
    }
    Ok(o)
}

fn diff(a: &Obs, b: &Obs, what: &str) -> Option<(String, String)> {
    if a.count != b.count {
        return Some((format!("{}/count", what), format!("count {} vs {}", a.count, b.count)));
    }
    for i in 0..a.latest.len() {
        if a.latest[i] != b.latest[i] {
            return Some((format!("{}/get_latest", what), format!("present key #{}: {:?} vs {:?}", i, a.latest[i], b.latest[i])));
        }
        if a.all[i] != b.all[i] {
            let kind = if a.all[i].len() != b.all[i].len() { "len" } else { "order-or-content" };
            return Some((format!("{}/get_all/{}", what, kind), format!("present key #{}: {:?} vs {:?}", i, a.all[i], b.all[i])));
        }
    }
    for i in 0..a.absent_latest.len() {
        if a.absent_latest[i] != b.absent_latest[i] || a.absent_all[i] != b.absent_all[i] {
            return Some((format!("{}/absent", what), format!("absent key #{}: {:?}/{} vs {:?}/{}", i, a.absent_latest[i], a.absent_all[i], b.absent_latest[i], b.absent_all[i])));
        }
    }
    None
}

struct ShapeOut {
    levels: u32,
    nodes: usize,
    headers: usize,
    longest_run: usize,
    absent_probes: usize,
    failure: Option<(String, String)>,
}

async fn run_shape_n<const N: usize>(shape: &Shape, dir: &std::path::Path, rng: &mut Rng) -> ShapeOut {
    let mut out = ShapeOut { levels: 0, nodes: 0, headers: 0, longest_run: 0, absent_probes: 0, failure: None };
    let nk = shape.keys.len();
    // keys: sorted distinct; absent keys below / between / above
    let maxv = max_key_val(N);
    let mut vals: Vec<u64> = Vec::with_capacity(nk);
    if shape.random_keys && N >= 3 {
        let mut set = std::collections::BTreeSet::new();
        while set.len() < nk {
            let v = if N >= 8 { rng.next() } else { rng.below(maxv) };
            if v > 2 && v < maxv - 2 {
                set.insert(v & !1); // even values: odd neighbours are absent
            }
        }
        vals = set.into_iter().collect();
    } else {
        for i in 0..nk {
            vals.push(2 * i as u64 + 2);
        }
    }
    let present: Vec<Vec<u8>> = vals.iter().map(|v| be_key(N, *v)).collect();
    let mut absent: Vec<Vec<u8>> = Vec::new();
    absent.push(be_key(N, vals[0] - 1));
    if vals[0] >= 2 {
        absent.push(be_key(N, 0));
    }
    for w in vals.windows(2) {
        if w[1] - w[0] >= 2 {
            absent.push(be_key(N, w[0] + 1));
        }
    }
    if *vals.last().unwrap() < maxv {
        absent.push(be_key(N, vals.last().unwrap() + 1));
        absent.push(be_key(N, maxv));
    }
    absent.retain(|a| !present.contains(a));
    out.absent_probes = absent.len();
    let path = dir.join("t.0.index");
    let bloom = if shape.bloom { Some(crate::drive::small_bloom()) } else { None };
    let mut probe: IndexProbe<ArrayKey<N>> = match IndexProbe::new(&path, bloom.clone()) {
        Ok(p) => p,
        Err(e) => {
            out.failure = Some(("probe/new".into(), format!("{:#}", e)));
            return out;
        }
    };
    // push in a random interleaving of keys (per-key order preserved)
    let mut cursor = vec![0usize; nk];
    let mut remaining: Vec<usize> = (0..nk).filter(|i| !shape.keys[*i].is_empty()).collect();
    let mut pushed: Vec<Vec<(u64, bool, u64)>> = vec![Vec::new(); nk];
    let mut off = 20u64;
    let mut total = 0usize;
    while !remaining.is_empty() {
        let ri = rng.below(remaining.len() as u64) as usize;
        let ki = remaining[ri];
        let (ts, del) = shape.keys[ki][cursor[ki]];
        cursor[ki] += 1;
        if cursor[ki] == shape.keys[ki].len() {
            remaining.swap_remove(ri);
        }
        let dsize = if del { 0 } else { 10 + (total as u64 % 7) };
        let key = ArrayKey::<N>::from(present[ki].clone());
        if let Err(e) = probe.push(&key, ts, del, off, dsize) {
            out.failure = Some(("probe/push".into(), format!("{:#}", e)));
            return out;
        }
        pushed[ki].push((ts, del, off));
        off += 57 + N as u64 + 8 + dsize;
        total += 1;
    }
    out.headers = total;
    out.longest_run = shape.keys.iter().map(|k| k.len()).max().unwrap_or(0);
    let blob_size = off;
    let mem = match observe(&probe, &present, &absent).await {
        Ok(o) => o,
        Err(e) => {
            out.failure = Some(("memory/query-failed".into(), e));
            return out;
        }
    };
    // in-memory answers vs the harness' own expectation
    if mem.count != total {
        out.failure = Some(("memory/count".into(), format!("in-memory count {} after {} pushes", mem.count, total)));
        return out;
    }
    for i in 0..nk {
        let exp = expect_list(&pushed[i]);
        let got: Vec<(u64, bool, u64)> = mem.all[i].iter().map(|h| (h.0, h.1, h.2)).collect();
        if got != exp {
            out.failure = Some(("memory/get_all-vs-expectation".into(), format!("key #{}: got {:?}, expected {:?}", i, got, exp)));
            return out;
        }
        let top = exp[0];
        let ok = match mem.latest[i] {
            Some(h) if top.1 => h.1 && h.0 == top.0,
            Some(h) => !h.1 && h.0 == top.0 && h.2 == top.2,
            None => false,
        };
        if !ok {
            out.failure = Some(("memory/get_latest-vs-expectation".into(), format!("key #{}: got {:?}, expected top {:?}", i, mem.latest[i], top)));
            return out;
        }
        if !mem.filter_present[i] {
            out.failure = Some(("memory/filter-false-negative".into(), format!("key #{} is in the index but its filter says absent", i)));
            return out;
        }
    }
    for (i, a) in mem.absent_latest.iter().enumerate() {
        if a.is_some() || mem.absent_all[i] != 0 {
            out.failure = Some(("memory/absent-found".into(), format!("absent key #{} found in memory index", i)));
            return out;
        }
    }
    if let Err(e) = probe.dump(blob_size).await {
        out.failure = Some(("dump/failed".into(), format!("{:#}", e)));
        return out;
    }
    if !probe.on_disk() {
        out.failure = Some(("dump/not-on-disk".into(), "index still in memory after dump".into()));
        return out;
    }
    let disk = match observe(&probe, &present, &absent).await {
        Ok(o) => o,
        Err(e) => {
            out.failure = Some(("disk/query-failed".into(), e));
            return out;
        }
    };
    if let Some((s, d)) = diff(&mem, &disk, "disk-vs-memory") {
        out.failure = Some((s, d));
        return out;
    }
    for (i, f) in disk.filter_present.iter().enumerate() {
        if !f {
            out.failure = Some(("disk/filter-false-negative".into(), format!("key #{}: filter of the on-disk index says absent", i)));
            return out;
        }
    }
    // independent parse of the file
    if let Ok(bytes) = std::fs::read(&path) {
        let ip = parse::parse_index(&bytes);
        out.levels = ip.levels;
        out.nodes = ip.node_offsets.len();
        if ip.error.is_some() || !ip.hash_ok || ip.records_count as usize != total || ip.headers.len() != total || ip.len != ip.leaves_offset + (total as u64) * ip.record_header_size {
            out.failure = Some(("file/parse".into(), format!("independent parse: error={:?} hash_ok={} records_count={} headers={} len={} leaves_offset={}", ip.error, ip.hash_ok, ip.records_count, ip.headers.len(), ip.len, ip.leaves_offset)));
            return out;
        }
        // leaves: key ascending, within a key rank order
        let mut exp_seq: Vec<(Vec<u8>, u64, u64)> = Vec::new();
        for i in 0..nk {
            let mut v: Vec<(usize, (u64, bool, u64))> = pushed[i].iter().cloned().enumerate().collect();
            v.sort_by(|a, b| b.1 .0.cmp(&a.1 .0).then(b.0.cmp(&a.0)));
            for (_, x) in v {
                exp_seq.push((present[i].clone(), x.0, x.2));
            }
        }
        let got_seq: Vec<(Vec<u8>, u64, u64)> = ip.headers.iter().map(|h| (h.key.clone(), h.ts, h.blob_offset)).collect();
        if got_seq != exp_seq {
            out.failure = Some(("file/leaf-order".into(), "leaf headers are not (key asc, rank order)".into()));
            return out;
        }
    }
    // re-open the file
    match IndexProbe::<ArrayKey<N>>::from_file(&path, bloom.clone(), blob_size).await {
        Ok(p2) => {
            let d2 = match observe(&p2, &present, &absent).await {
                Ok(o) => o,
                Err(e) => {
                    out.failure = Some(("reopened/query-failed".into(), e));
                    return out;
                }
            };
            if let Some((s, d)) = diff(&mem, &d2, "reopened-vs-memory") {
                out.failure = Some((s, d));
                return out;
            }
        }
        Err(e) => {
            out.failure = Some(("reopen/failed".into(), format!("{:#}", e)));
            return out;
        }
    }
    if let Err(e) = probe.load(blob_size).await {
        out.failure = Some(("load/failed".into(), format!("{:#}", e)));
        return out;
    }
    let mem2 = match observe(&probe, &present, &absent).await {
        Ok(o) => o,
        Err(e) => {
            out.failure = Some(("loaded/query-failed".into(), e));
            return out;
        }
    };
    if let Some((s, d)) = diff(&mem, &mem2, "loaded-vs-memory") {
        out.failure = Some((s, d));
        return out;
    }
    out
}

macro_rules! dispatch {
    ($n:expr, $f:ident, $($args:expr),*) => {
        match $n {
            1 => $f::<1>($($args),*).await,
            2 => $f::<2>($($args),*).await,
            3 => $f::<3>($($args),*).await,
            4 => $f::<4>($($args),*).await,
            7 => $f::<7>($($args),*).await,
            8 => $f::<8>($($args),*).await,
            16 => $f::<16>($($args),*).await,
            32 => $f::<32>($($args),*).await,
            71 => $f::<71>($($args),*).await,
            34 => $f::<34>($($args),*).await,
            48 => $f::<48>($($args),*).await,
            65 => $f::<65>($($args),*).await,
            138 => $f::<138>($($args),*).await,
            196 => $f::<196>($($args),*).await,
            264 => $f::<264>($($args),*).await,
            284 => $f::<284>($($args),*).await,
            332 => $f::<332>($($args),*).await,
            400 => $f::<400>($($args),*).await,
            502 => $f::<502>($($args),*).await,
            503 => $f::<503>($($args),*).await,
            576 => $f::<576>($($args),*).await,
            128 => $f::<128>($($args),*).await,
            184 => $f::<184>($($args),*).await,
            199 => $f::<199>($($args),*).await,
            455 => $f::<455>($($args),*).await,
            967 => $f::<967>($($args),*).await,
            _ => $f::<1000>($($args),*).await,
        }
    };
}

pub const KEYLENS: [usize; 27] = [1, 2, 3, 4, 7, 8, 16, 32, 34, 48, 65, 71, 128, 138, 184, 196, 199, 264, 284, 332, 400, 455, 502, 503, 576, 967, 1000];

fn shapes_for(keylen: usize, thorough: bool, rng: &mut Rng) -> Vec<Shape> {
    let rhs = 57 + keylen;
    let b = 4096 / rhs; // headers per block
    let fan = (4096 - 16) / (keylen + 8) + 1;
    let max_keys_by_len = if keylen == 1 { 120 } else { usize::MAX };
    let mut out = Vec::new();
    let ones = |n: usize| -> Vec<Vec<(u64, bool)>> { (0..n).map(|i| vec![(1 + (i as u64 % 3), false)]).collect() };
    // key-count sweep (1 version each): every remainder of the last leaf for small trees
    let small_max = (3 * b + 2).min(if thorough { 1200 } else { 200 }).min(max_keys_by_len);
    for n in 1..=small_max {
        out.push(Shape { keylen, keys: ones(n), random_keys: n % 2 == 0, bloom: n % 3 == 0, desc: format!("L{}:ones:n{}", keylen, n) });
    }
    // larger counts through the inner-level thresholds: leaves = ceil(n / b); levels change at fan, fan^2, ...
    let cap = if thorough { 200_000 } else { 20_000 };
    let mut thresholds = Vec::new();
    let mut leaves = fan;
    for _ in 0..3 {
        thresholds.push(leaves);
        leaves = leaves.saturating_mul(fan);
    }
    for t in thresholds {
        for dl in [-1i64, 0, 1, 2] {
            let l = (t as i64 + dl).max(1) as usize;
            for dn in [-1i64, 0, 1] {
                let n = (l as i64 * b as i64 + dn).max(1) as usize;
                if n <= cap && n <= max_keys_by_len {
                    out.push(Shape { keylen, keys: ones(n), random_keys: dn == 0, bloom: false, desc: format!("L{}:ones:n{}(leaves~{})", keylen, n, l) });
                }
            }
        }
    }
    // min_amount/max_amount grouping boundaries of the inner layer: node counts around k*fan + (fan-1)/2
    let min_amount = (fan - 1) / 2 + 1;
    for l in [fan + min_amount - 1, fan + min_amount, fan + min_amount + 1, 2 * fan, 2 * fan + 1, 2 * fan + min_amount] {
        let n = l * b;
        if n <= cap && n <= max_keys_by_len {
            out.push(Shape { keylen, keys: ones(n), random_keys: false, bloom: false, desc: format!("L{}:ones:n{}(grouping,leaves~{})", keylen, n, l) });
        }
    }
    // version runs at first / middle / last key
    let bb = b.max(1);
    for r in [bb.saturating_sub(1).max(1), bb, bb + 1, 2 * bb, 2 * bb + 1, 7 * bb] {
        for nk in [1usize, 2, 3, bb, bb + 1, 3 * bb] {
            if nk > max_keys_by_len {
                continue;
            }
            for pos in 0..3 {
                let at = match pos {
                    0 => 0,
                    1 => nk / 2,
                    _ => nk - 1,
                };
                if pos > 0 && nk == 1 {
                    continue;
                }
                let mut keys = ones(nk);
                let tie = (r + nk + pos) % 3;
                keys[at] = (0..r)
                    .map(|i| {
                        let ts = match tie {
                            0 => 5,                 // all tied
                            1 => i as u64,          // ascending
                            _ => (i as u64 * 7) % 4, // mixed with ties
                        };
                        (ts, false)
                    })
                    .collect();
                out.push(Shape { keylen, keys, random_keys: (r + nk) % 2 == 0, bloom: false, desc: format!("L{}:run{}@{}of{}:tie{}", keylen, r, at, nk, tie) });
            }
        }
    }
    // markers at top / middle / bottom of a run, in small and block-crossing runs
    for r in [3usize, bb + 2] {
        for mpos in 0..3 {
            let mut keys = ones(5.min(max_keys_by_len));
            let mut run: Vec<(u64, bool)> = (0..r).map(|i| (i as u64 + 1, false)).collect();
            let m = match mpos {
                0 => r - 1,
                1 => r / 2,
                _ => 0,
            };
            run[m].1 = true;
            keys[2] = run;
            out.push(Shape { keylen, keys, random_keys: false, bloom: true, desc: format!("L{}:marker{}:run{}", keylen, mpos, r) });
        }
    }
    // random shapes
    let nrand = if thorough { 400 } else { 40 };
    for i in 0..nrand {
        let nk = rng.range(1, (6 * bb as u64).min(max_keys_by_len as u64)) as usize;
        let mut keys: Vec<Vec<(u64, bool)>> = (0..nk)
            .map(|_| {
                let r = if rng.chance(1, 6) { rng.range(1, 3 * bb as u64) } else { rng.range(1, 3) } as usize;
                (0..r).map(|_| (rng.range(0, 4), rng.chance(1, 8))).collect()
            })
            .collect();
        // a quarter of the random shapes: timestamps at the edges of the u64 range (order preserved)
        if rng.chance(1, 4) {
            let map = crate::ops::extreme_ts_map(rng, 4);
            for k in keys.iter_mut() {
                for v in k.iter_mut() {
                    v.0 = map[v.0.min(7) as usize];
                }
            }
        }
        out.push(Shape { keylen, keys, random_keys: rng.chance(1, 2), bloom: rng.chance(1, 2), desc: format!("L{}:random#{}:{:x}", keylen, i, rng.next() & 0xffff) });
    }
    out
}

/// Engine 2: the same kind of shapes end-to-end through `Storage` with long keys (small fan-out), so that
/// multi-level trees are built by the real dump path and queried through filters + index files.
async fn storage_engine<const N: usize>(d: &mut crate::drive::Driver<N>, n_keys: u16, rng: &mut Rng) -> Result<(), crate::drive::Mismatch> {
    use crate::drive::S_ALL_QUERIES;
    use crate::ops::Op;
    d.open(false).await?;
    let mut order: Vec<u16> = (0..n_keys).collect();
    rng.shuffle(&mut order);
    for (i, k) in order.iter().enumerate() {
        let versions = if i % 17 == 0 { rng.range(2, 9) } else { 1 };
        for _ in 0..versions {
            d.step(&Op::Put { k: *k, ts: rng.range(0, 3), meta: None, size: 12 }).await?;
        }
        if i % 23 == 5 {
            d.step(&Op::Del { k: *k, ts: rng.range(0, 3), meta: None, only_if: false }).await?;
        }
    }
    d.check(S_ALL_QUERIES).await?;
    d.step(&Op::Close).await?;
    d.step(&Op::Dump).await?;
    d.check(S_ALL_QUERIES).await?;
    d.step(&Op::Restart { lazy: rng.chance(1, 2), rm_idx: 0 }).await?;
    d.check(S_ALL_QUERIES).await?;
    // a delete into the on-disk-indexed blob reloads the index, the re-dump rebuilds the tree
    for _ in 0..3 {
        let k = rng.below(n_keys as u64) as u16;
        d.step(&Op::Del { k, ts: 2, meta: None, only_if: true }).await?;
    }
    d.step(&Op::Dump).await?;
    d.check(S_ALL_QUERIES).await?;
    d.close().await?;
    Ok(())
}

fn run_storage_engine(ctx: &Ctx, sh: &mut Shard, rng: &mut Rng) {
    let keylen = *rng.pick(&[71usize, 503]);
    let (b, fan) = (4096 / (57 + keylen), (4096 - 16) / (keylen + 8) + 1);
    // key counts around the one- and two-inner-level thresholds of this key length
    let leaves = *rng.pick(&[1usize, 2, fan - 1, fan, fan + 1, 2 * fan, fan * fan / 2 + 1]);
    let n_keys = ((leaves * b) as i64 + rng.range(0, 2) as i64 - 1).clamp(1, 1200) as u16;
    let mut cfg = crate::drive::Cfg::default_for(n_keys, 0);
    cfg.keylen = keylen;
    cfg.key_salt = rng.next();
    cfg.bloom = rng.below(2) as u8;
    cfg.mt = rng.chance(2, 3);
    let dir = new_dir("c09s-");
    let seed = rng.next();
    let mut crng = Rng::new(seed);
    let res = if keylen == 71 {
        let mut d: crate::drive::Driver<71> = crate::drive::Driver::new(dir.clone(), cfg.clone(), 0xC09);
        block_on_catch(cfg.mt, storage_engine(&mut d, n_keys, &mut crng)).map(|r| (r, d.stats.compared))
    } else {
        let mut d: crate::drive::Driver<503> = crate::drive::Driver::new(dir.clone(), cfg.clone(), 0xC09);
        block_on_catch(cfg.mt, storage_engine(&mut d, n_keys, &mut crng)).map(|r| (r, d.stats.compared))
    };
    rm_dir(&dir);
    sh.evaluations += 1;
    sh.add("storage_engine_runs", 1);
    sh.add(&format!("storage_engine_keylen_{}", keylen), 1);
    sh.nontrivial.insert(fnv(format!("se-{}-{}-{}", keylen, n_keys, seed).as_bytes()));
    let replay = json!({"check": "c09-storage-engine", "cfg": cfg.to_json(), "n_keys": n_keys, "seed": seed});
    match res {
        Ok((Ok(()), compared)) => sh.add("storage_engine_queries_compared", compared),
        Ok((Err(m), _)) => {
            sh.violation(&ctx.known, "C09", ctx.seed, &format!("C09/storage-engine/{}", m.sig), &format!("key length {}, {} keys: {}", keylen, n_keys, m.detail), replay);
        }
        Err(p) => sh.violation(&ctx.known, "C09", ctx.seed, "C09/storage-engine/panic", &format!("key length {}, {} keys: {}", keylen, n_keys, p), replay),
    }
}

pub fn shard(ctx: &Ctx) -> Shard {
    let mut sh = Shard::default();
    let mut rng = Rng::new(ctx.shard_seed());
    // engine 2 gets the last third of the budget
    let total = ctx.deadline.saturating_duration_since(std::time::Instant::now());
    let full_ctx = ctx;
    let mut sub = ctx.clone();
    sub.deadline = std::time::Instant::now() + total * 2 / 3;
    let ctx = &sub;
    let mut gen_rng = Rng::new(crate::rng::mix(ctx.seed, 0xC09));
    // all shards generate the same shape list, each takes its slice
    let mut all: Vec<Shape> = Vec::new();
    for l in KEYLENS {
        all.extend(shapes_for(l, ctx.thorough(), &mut gen_rng));
    }
    // cheap shapes first (breadth under a tight time budget), every tenth slot taken from the expensive end
    let mut by_size: Vec<usize> = (0..all.len()).collect();
    by_size.sort_by_key(|i| all[*i].keys.iter().map(|k| k.len()).sum::<usize>());
    let mut idx: Vec<usize> = Vec::with_capacity(by_size.len());
    let (mut lo, mut hi) = (0usize, by_size.len());
    while lo < hi {
        for _ in 0..9 {
            if lo < hi {
                idx.push(by_size[lo]);
                lo += 1;
            }
        }
        if lo < hi {
            hi -= 1;
            idx.push(by_size[hi]);
        }
    }
    let mut skipped = 0u64;
    for (n, i) in idx.iter().enumerate() {
        if n % ctx.shards != ctx.shard {
            continue;
        }
        if !ctx.time_left() {
            skipped += 1;
            continue;
        }
        let shape = &all[*i];
        let dir = new_dir("c09-");
        let res = block_on_catch(true, async {
            let kl = shape.keylen;
            dispatch!(kl, run_shape_n, shape, &dir, &mut rng)
        });
        rm_dir(&dir);
        sh.evaluations += 1;
        match res {
            Ok(out) => {
                sh.add("headers_pushed", out.headers as u64);
                sh.add("absent_key_probes", out.absent_probes as u64);
                sh.add(&format!("trees_with_{}_inner_levels", out.levels.min(4)), 1);
                sh.max("max_inner_nodes", out.nodes as u64);
                sh.max("max_longest_run_headers", out.longest_run as u64);
                sh.add(&format!("shapes_keylen_{:04}", shape.keylen), 1);
                let block = 4096 / (57 + shape.keylen);
                if out.levels >= 1 || out.longest_run > block {
                    sh.nontrivial.insert(fnv(shape.desc.as_bytes()));
                }
                if sh.samples.len() < 3 && out.levels >= 1 {
                    sh.sample(json!({"shape": shape.desc, "headers": out.headers, "inner_levels": out.levels, "inner_nodes": out.nodes, "absent_probes": out.absent_probes}));
                }
                if let Some((sig, detail)) = out.failure {
                    let versions: BTreeMap<String, usize> = BTreeMap::new();
                    let _ = versions;
                    let replay = json!({"check": "c09", "shape": shape.desc, "keylen": shape.keylen, "keys": shape.keys.iter().map(|k| k.iter().map(|(t, d)| json!([t, d])).collect::<Vec<_>>()).collect::<Vec<_>>(), "random_keys": shape.random_keys, "bloom": shape.bloom});
                    sh.violation(&ctx.known, "C09", ctx.seed, &format!("C09/{}", sig), &format!("shape {}: {}", shape.desc, detail), replay);
                }
            }
            Err(p) => {
                let replay = json!({"check": "c09", "shape": shape.desc});
                sh.violation(&ctx.known, "C09", ctx.seed, "C09/panic", &format!("shape {}: panic {}", shape.desc, p), replay);
            }
        }
    }
    sh.add("shapes_skipped_time_budget", skipped);
    let mut n2 = 0;
    while full_ctx.time_left() && n2 < if full_ctx.thorough() { 100_000 } else { 40 } {
        run_storage_engine(full_ctx, &mut sh, &mut rng);
        n2 += 1;
    }
    sh
}
