//! C04 - representation transparency: lifecycle and maintenance never change answers.

use super::modelchk::Spec;
use crate::drive::{Cfg, Class, S_ALL_QUERIES};
use crate::evidence::{Meta, Shard};
use crate::ops::Profile;
use crate::rng::Rng;
use crate::runner::{Ctx, Plan};

pub fn plan() -> Plan {
    Plan {
        meta: Meta {
            property: "C04",
            level: "exploration",
            rule: "model differential on maintenance-heavy histories: data operations interleaved with try_close/try_create/try_restore_active_blob, the *_in_background variants (+ worker barrier), force_update_active_blob(pred true/false), free_excess_resources with and without waiting for the dump (dumps race with the following queries), offload_buffer(needed, level), fsyncdata, restarts. Each maintenance call's result is checked against the documented precondition (model), then the whole query surface (read, contains, read_all*, read_with) is compared for every key after every step, and the following writes/deletes must succeed and be visible. Filter group sizes {2,3,4,8}, both runtime flavours. A quarter of the random histories rotate automatically (record limit 1-4 or size limit 100-900 bytes with a 0 ms rotation debounce; every rotation the worker performs is mirrored into the model, a rotation below the limit is a mismatch); one in eight starts with 9-14 small blobs (two-digit blob ids, several filter levels); one in twelve starts with a fat blob of 70-140 records (multi-leaf on-disk index). Non-trivial = history with >=1 maintenance operation that ran >=3 steps; abstract states (active present, active index file, #closed, #closed with index file, filter off-loaded) visited are counted in observed.distinct_abstract_states.",
            assumptions: vec!["verdict holds for the executions produced by this seed only"],
        },
        shards: 16,
        soft_s: (24, 420),
        exhaustive: None,
        min_evaluations: 200,
        extra: None,
    }
}

fn tweak(cfg: &mut Cfg, rng: &mut Rng) {
    cfg.group = *rng.pick(&[2usize, 3, 4, 8]);
    cfg.mt = rng.chance(1, 2);
    cfg.bloom = *rng.pick(&[1u8, 1, 0]);
}

pub fn spec() -> Spec {
    Spec {
        property: "C04",
        check_name: "c04",
        profile: Profile::c04(),
        surface: S_ALL_QUERIES,
        owned: vec![Class::Lifecycle, Class::DataOp, Class::DelCount, Class::Read, Class::Contains, Class::Lists, Class::ReadWith, Class::Close],
        nontrivial_rule: 0,
        dup: Some(true),
        enumerate_len: (0, 0),
        max_random: (100_000, 10_000_000),
        tweak_cfg: tweak,
    }
}

pub fn shard(ctx: &Ctx) -> Shard {
    super::modelchk::shard(ctx, &spec())
}
