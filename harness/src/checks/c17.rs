//! C17 - on-disk format compatibility with the pinned release (fixed corpus written by the pinned tree).

use crate::evidence::{verif_root, Meta as EvMeta, Shard};
use crate::rng::fnv;
use crate::runner::{block_on_catch, new_dir, rm_dir, Ctx, Plan};
use pearl::{ArrayKey, BloomConfig, BloomProvider, Builder, ErrorKind, Meta, ReadResult, Storage};
use serde_json::{json, Value};
use sha2::{Digest, Sha256};
use std::path::{Path, PathBuf};

pub fn plan() -> Plan {
    Plan {
        meta: EvMeta {
            property: "C17",
            level: "exploration",
            rule: "a corpus of directories written by the PINNED tree (corpus_gen built against a worktree of the pinned commit; key sizes 4/8/16/32, no bloom / two small bloom configs / pearl's default bloom config (filters of ~760 KiB per blob), 1-4 blobs, metas, deletion markers, multi-version keys, values up to 4.5 KB) is committed together with the answers the pinned tree itself gave after a restart (read bytes digest, contains, read_all_with_deletion_marker with data digests and metas, read_with per meta, check_filters, counts), plus 552 bloom vectors (the serialised filter the pinned tree built for one key of every length 1..80 and some up to 1000, three byte patterns, two filter geometries: the current tree must build the byte-identical filter and find the key in the recorded one). For every directory and EVERY subset of removed index files the current tree opens a copy (eager and lazy init) and must give identical answers; then all filter buffers are off-loaded and the filter answers and reads must still be identical (hash function and bit order compatibility). Mismatch cases on copies: blob header version patched, index header version patched, directory opened with another key size: no query may return data from the mismatching blob; the mismatch must surface as an init error of validation kind or as an intact quarantine with corrupted_blobs_count incremented (an index version mismatch may instead fall back to regeneration with identical answers). exhaustive over the committed corpus x index subsets. Non-trivial = case with at least one index file removed or a mismatch patch; distinct = (directory, subset/patch, init flavour).",
            assumptions: vec!["the corpus under /verif/corpus was produced by tools/gen_corpus.sh from the pinned commit recorded in corpus/PINNED_COMMIT", "answers recorded by the pinned tree are taken as the reference"],
        },
        shards: 16,
        soft_s: (25, 120),
        exhaustive: Some(true),
        min_evaluations: 50,
        extra: None,
    }
}

fn splitmix(x: &mut u64) -> u64 {
    *x = x.wrapping_add(0x9E37_79B9_7F4A_7C15);
    let mut z = *x;
    z = (z ^ (z >> 30)).wrapping_mul(0xBF58_476D_1CE4_E5B9);
    z = (z ^ (z >> 27)).wrapping_mul(0x94D0_49BB_1331_11EB);
    z ^ (z >> 31)
}

fn key_bytes(seed: u64, k: u64, n: usize) -> Vec<u8> {
    let mut s = seed ^ (k.wrapping_mul(0x1234_5678_9ABC_DEF1));
    let mut out = Vec::new();
    while out.len() < n {
        out.extend_from_slice(&splitmix(&mut s).to_le_bytes());
    }
    out.truncate(n);
    out
}

fn meta_of(id: u8) -> Meta {
    let mut m = Meta::new();
    match id {
        0 => {}
        1 => {
            m.insert("m".to_string(), b"A".to_vec());
        }
        _ => {
            m.insert("m".to_string(), b"B".to_vec());
            m.insert("x".to_string(), vec![1u8, 2, 3]);
        }
    }
    m
}

fn hexs(b: &[u8]) -> String {
    b.iter().map(|x| format!("{:02x}", x)).collect()
}

fn digest(b: &[u8]) -> String {
    hexs(&Sha256::digest(b)[..16])
}

fn bloom_cfg(kind: u64) -> Option<BloomConfig> {
    match kind {
        0 => None,
        1 => Some(BloomConfig { elements: 50, hashers_count: 2, max_buf_bits_count: 1001, buf_increase_step: 7, preferred_false_positive_rate: 0.01 }),
        3 => Some(BloomConfig::default()),
        _ => Some(BloomConfig { elements: 300, hashers_count: 3, max_buf_bits_count: 4099, buf_increase_step: 13, preferred_false_positive_rate: 0.001 }),
    }
}

fn builder(dir: &Path, bloom: u64) -> Builder {
    let mut b = Builder::new().work_dir(dir).blob_file_name_prefix("t").max_blob_size(1 << 40).max_data_in_blob(1_000_000_000).allow_duplicates().set_bloom_filter_group_size(2);
    if let Some(c) = bloom_cfg(bloom) {
        b = b.set_filter_config(c);
    }
    b
}

fn tsu(t: pearl::BlobRecordTimestamp) -> u64 {
    t.into()
}

/// the same observations the generator recorded, as JSON
async fn answers<const N: usize>(s: &Storage<ArrayKey<N>>, seed: u64, n_keys: u64, lazy: bool) -> Result<Value, String> {
    let mut keys = Vec::new();
    for k in 0..(n_keys + 6) {
        let kb = key_bytes(seed, k, N);
        let key = ArrayKey::<N>::from(kb.clone());
        let read = match s.read(&key).await.map_err(|e| format!("read(k{}) failed: {:#}", k, e))? {
            ReadResult::Found(b) => json!({"found": digest(&b), "len": b.len()}),
            ReadResult::Deleted(t) => json!({"deleted": tsu(t)}),
            ReadResult::NotFound => json!("notfound"),
        };
        let contains = match s.contains(&key).await.map_err(|e| format!("contains(k{}) failed: {:#}", k, e))? {
            ReadResult::Found(t) => json!({"found": tsu(t)}),
            ReadResult::Deleted(t) => json!({"deleted": tsu(t)}),
            ReadResult::NotFound => json!("notfound"),
        };
        let mut list = Vec::new();
        for mut e in s.read_all_with_deletion_marker(&key).await.map_err(|e| format!("read_all_with_deletion_marker(k{}) failed: {:#}", k, e))? {
            let ts: u64 = tsu(e.timestamp());
            let del = e.is_deleted();
            let data = e.load_data().await.map_err(|e| format!("load_data(k{}) failed: {:#}", k, e))?;
            let meta = e.load_meta().await.map_err(|e| format!("load_meta(k{}) failed: {:#}", k, e))?.cloned().unwrap_or_default();
            let mut mm: Vec<(String, String)> = ["m", "x"].iter().filter_map(|n| meta.get(n).map(|v| (n.to_string(), hexs(v)))).collect();
            mm.sort();
            list.push(json!({"ts": ts, "deleted": del, "data": digest(&data), "len": data.len(), "meta": mm}));
        }
        let mut with = Vec::new();
        for m in 0..3u8 {
            with.push(match s.read_with(&key, &meta_of(m)).await.map_err(|e| format!("read_with(k{}) failed: {:#}", k, e))? {
                ReadResult::Found(b) => json!({"found": digest(&b)}),
                ReadResult::Deleted(t) => json!({"deleted": tsu(t)}),
                ReadResult::NotFound => json!("notfound"),
            });
        }
        let filters = s.check_filters(&key).await;
        keys.push(json!({"k": k, "key": hexs(&kb), "read": read, "contains": contains, "list": list, "read_with": with, "check_filters": filters}));
    }
    let det: Vec<usize> = s.records_count_detailed().await.iter().map(|d| d.1).collect();
    // with lazy init there is no active blob: the same blobs are all in the closed list (counts in the same order)
    let _ = lazy;
    Ok(json!({
        "keys": keys,
        "records_count": s.records_count().await,
        "records_count_detailed": det,
        "blobs_count": s.blobs_count().await,
        "next_blob_id": s.next_blob_id(),
    }))
}

fn first_diff(a: &Value, b: &Value, path: String) -> Option<String> {
    match (a, b) {
        (Value::Object(x), Value::Object(y)) => {
            for (k, v) in x {
                match y.get(k) {
                    Some(w) => {
                        if let Some(d) = first_diff(v, w, format!("{}.{}", path, k)) {
                            return Some(d);
                        }
                    }
                    None => return Some(format!("{}.{} missing", path, k)),
                }
            }
            None
        }
        (Value::Array(x), Value::Array(y)) => {
            if x.len() != y.len() {
                return Some(format!("{}: {} elements recorded, {} now", path, x.len(), y.len()));
            }
            for (i, (v, w)) in x.iter().zip(y.iter()).enumerate() {
                if let Some(d) = first_diff(v, w, format!("{}[{}]", path, i)) {
                    return Some(d);
                }
            }
            None
        }
        _ => {
            if a != b {
                Some(format!("{}: recorded {} now {}", path, a, b))
            } else {
                None
            }
        }
    }
}

fn copy_dir(from: &Path, to: &Path, skip_idx: &[usize]) {
    let _ = std::fs::create_dir_all(to);
    for e in std::fs::read_dir(from).unwrap().flatten() {
        let p = e.path();
        let name = e.file_name().to_string_lossy().to_string();
        if name == "answers.json" || !p.is_file() {
            continue;
        }
        if name.ends_with(".index") {
            if let Some(id) = crate::tap::blob_id_of(&p) {
                if skip_idx.contains(&id) {
                    continue;
                }
            }
        }
        let _ = std::fs::copy(&p, to.join(&name));
    }
}

fn snapshot_blobs(dir: &Path) -> Vec<(String, Vec<u8>)> {
    let mut v = Vec::new();
    for e in std::fs::read_dir(dir).unwrap().flatten() {
        let name = e.file_name().to_string_lossy().to_string();
        if name.ends_with(".blob") {
            v.push((name, std::fs::read(e.path()).unwrap_or_default()));
        }
    }
    v.sort();
    v
}

struct Case {
    name: String,
    result: Result<(), (String, String)>,
}

async fn open_and_compare<const N: usize>(dir: &Path, meta: &Value, lazy: bool, offload: bool) -> Result<(), (String, String)> {
    let bloom = meta["bloom"].as_u64().unwrap_or(0);
    let seed = meta["seed"].as_u64().unwrap_or(0);
    let n_keys = meta["n_keys"].as_u64().unwrap_or(0);
    let mut s: Storage<ArrayKey<N>> = builder(dir, bloom).build().map_err(|e| ("build".to_string(), format!("{:#}", e)))?;
    let r = if lazy { s.init_lazy().await } else { s.init().await };
    r.map_err(|e| ("init-failed".to_string(), format!("init(lazy={}) of a directory written by the pinned release failed: {:#}", lazy, e)))?;
    if s.corrupted_blobs_count() != 0 {
        return Err(("blob-quarantined".into(), format!("{} blob(s) written by the pinned release were quarantined", s.corrupted_blobs_count())));
    }
    if offload {
        let _ = s.offload_buffer(usize::MAX, 2).await;
    }
    let got = answers(&s, seed, n_keys, lazy).await.map_err(|e| ("query-failed".to_string(), e))?;
    let _ = s.close().await;
    let mut exp = meta["answers"].clone();
    let mut got = got;
    if lazy {
        // with lazy init the newest blob is a closed blob (bloom filter instead of the exact in-memory
        // key check of an active blob): check_filters may legitimately say "maybe" for more absent keys
        for v in [&mut exp, &mut got] {
            if let Some(keys) = v["keys"].as_array_mut() {
                for k in keys.iter_mut() {
                    k["check_filters"] = Value::Null;
                }
            }
        }
    }
    if offload {
        // only filter answers and reads are compared after off-loading (counts are unaffected)
        exp["records_count_detailed"] = Value::Null;
        got["records_count_detailed"] = Value::Null;
    }
    if let Some(d) = first_diff(&exp, &got, String::new()) {
        let what = d.split(':').next().unwrap_or("").rsplit('.').next().unwrap_or("").trim_end_matches(|c: char| c == ']' || c.is_ascii_digit() || c == '[').to_string();
        return Err((format!("answer-differs/{}", what), d));
    }
    Ok(())
}

fn is_validation_error(e: &anyhow::Error) -> bool {
    e.chain().any(|c| c.downcast_ref::<pearl::Error>().map(|pe| matches!(pe.kind(), ErrorKind::Validation { .. })).unwrap_or(false))
}

/// mismatch cases: returns Err(sig, detail) when data of a mismatching blob is served or the mismatch is not reported properly
async fn mismatch_case<const M: usize>(dir: &Path, meta: &Value, what: &str, before: &[(String, Vec<u8>)], patched: &[String]) -> Result<&'static str, (String, String)> {
    let bloom = meta["bloom"].as_u64().unwrap_or(0);
    let seed = meta["seed"].as_u64().unwrap_or(0);
    let n_keys = meta["n_keys"].as_u64().unwrap_or(0);
    let mut s: Storage<ArrayKey<M>> = builder(dir, bloom).build().map_err(|e| ("build".to_string(), format!("{:#}", e)))?;
    match s.init().await {
        Err(e) => {
            if is_validation_error(&e) {
                // nothing may have been harmed
                let after = snapshot_blobs(dir);
                if after != before {
                    return Err((format!("{}/files-changed-by-failed-init", what), "blob files differ after an init that failed with a validation error".into()));
                }
                Ok("init-validation-error")
            } else {
                Err((format!("{}/init-error-not-validation", what), format!("{:#}", e)))
            }
        }
        Ok(()) => {
            let cnt = s.corrupted_blobs_count();
            // quarantined files must be intact
            for (name, bytes) in before.iter().filter(|(n, _)| patched.contains(n)) {
                let q = dir.join("corrupted").join(name);
                let in_place = std::fs::read(dir.join(name)).ok();
                let moved = std::fs::read(&q).ok();
                if moved.as_deref() != Some(bytes.as_slice()) {
                    // still in place: then it must not be served
                    if in_place.as_deref() == Some(bytes.as_slice()) && what == "index-version" {
                        continue;
                    }
                    let _ = s.close().await;
                    return Err((format!("{}/mismatching-blob-not-quarantined-intact", what), format!("{} is neither rejected at init nor moved intact to corrupted/ (corrupted_blobs_count {})", name, cnt)));
                }
            }
            if what != "index-version" && cnt < patched.len() {
                let _ = s.close().await;
                return Err((format!("{}/corrupted-count", what), format!("corrupted_blobs_count() = {} with {} mismatching blobs", cnt, patched.len())));
            }
            // no data from a mismatching blob: with another key size every blob mismatches => nothing may be found
            if M != meta["keylen"].as_u64().unwrap_or(0) as usize {
                for k in 0..(n_keys + 6) {
                    let key = ArrayKey::<M>::from(key_bytes(seed, k, M));
                    if let Ok(ReadResult::Found(_)) | Ok(ReadResult::Deleted(_)) = s.read(&key).await {
                        let _ = s.close().await;
                        return Err((format!("{}/data-served-from-mismatching-blob", what), format!("read(k{}) found a record in a directory written with another key size", k)));
                    }
                }
                if s.records_count().await != 0 {
                    let c = s.records_count().await;
                    let _ = s.close().await;
                    return Err((format!("{}/records-from-mismatching-blob", what), format!("records_count() = {} after opening with another key size", c)));
                }
            }
            let _ = s.close().await;
            Ok("quarantined-or-regenerated")
        }
    }
}

fn run_dir<const N: usize>(ctx: &Ctx, sh: &mut Shard, cdir: &Path, meta: &Value) {
    let name = meta["name"].as_str().unwrap_or("?").to_string();
    let ids: Vec<usize> = {
        let mut v: Vec<usize> = std::fs::read_dir(cdir).unwrap().flatten().filter(|e| e.file_name().to_string_lossy().ends_with(".index")).filter_map(|e| crate::tap::blob_id_of(&e.path())).collect();
        v.sort();
        v
    };
    let n = ids.len();
    let mut cases: Vec<Case> = Vec::new();
    for mask in 0u32..(1 << n) {
        let skip: Vec<usize> = ids.iter().enumerate().filter(|(i, _)| mask >> i & 1 == 1).map(|(_, id)| *id).collect();
        for (lazy, offload) in [(false, false), (true, false), (false, true)] {
            let work = new_dir("c17-");
            copy_dir(cdir, &work, &skip);
            let r = block_on_catch(true, open_and_compare::<N>(&work, meta, lazy, offload));
            rm_dir(&work);
            let cname = format!("{}|idx-removed={:?}|{}{}", name, skip, if lazy { "lazy" } else { "eager" }, if offload { "+offload" } else { "" });
            let result = match r {
                Ok(r) => r,
                Err(p) => Err(("panic".to_string(), p)),
            };
            sh.evaluations += 1;
            sh.add("directory_openings_compared", 1);
            sh.add("answers_compared", (meta["n_keys"].as_u64().unwrap_or(0) + 6) * 8);
            if mask != 0 {
                sh.nontrivial.insert(fnv(cname.as_bytes()));
            }
            cases.push(Case { name: cname, result });
        }
    }
    sh.add(&format!("index_subsets_keylen_{}", N), 1 << n);
    if sh.samples.len() < 2 {
        sh.sample(json!({"corpus_dir": name, "keylen": N, "bloom_config": meta["bloom"], "blobs": meta["n_blobs"], "index_subsets": 1 << n, "recorded_records": meta["answers"]["records_count"]}));
    }
    for c in cases {
        if let Err((sig, detail)) = c.result {
            sh.violation(&ctx.known, "C17", ctx.seed, &format!("C17/{}", sig), &format!("{}: {}", c.name, detail), json!({"check": "c17", "case": c.name}));
        }
    }
    // ---- mismatch cases
    // (a) blob header version of the newest blob patched
    {
        let work = new_dir("c17m-");
        copy_dir(cdir, &work, &[]);
        let newest = format!("t.{}.blob", meta["n_blobs"].as_u64().unwrap_or(1) - 1);
        let p = work.join(&newest);
        let mut b = std::fs::read(&p).unwrap();
        b[8..12].copy_from_slice(&7u32.to_le_bytes());
        std::fs::write(&p, &b).unwrap();
        let before = snapshot_blobs(&work);
        let r = block_on_catch(true, mismatch_case::<N>(&work, meta, "blob-version", &before, &[newest.clone()]));
        rm_dir(&work);
        record_mismatch(ctx, sh, &name, "blob-version", r);
    }
    // (b) index header version patched in every index
    {
        let work = new_dir("c17m-");
        copy_dir(cdir, &work, &[]);
        for id in ids.iter() {
            let p = work.join(format!("t.{}.index", id));
            let mut b = std::fs::read(&p).unwrap();
            b[72] = (5 << 1) | 1;
            std::fs::write(&p, &b).unwrap();
        }
        let r = block_on_catch(true, async {
            // identical answers through regeneration, or a validation error
            match open_and_compare::<N>(&work, meta, false, false).await {
                Ok(()) => Ok("regenerated-identical"),
                Err((sig, d)) if sig == "init-failed" && d.contains("Validation") => Ok("init-validation-error"),
                Err((sig, d)) => Err((format!("index-version/{}", sig), d)),
            }
        });
        rm_dir(&work);
        record_mismatch(ctx, sh, &name, "index-version", r);
    }
    // (c) another key size
    {
        let work = new_dir("c17m-");
        copy_dir(cdir, &work, &[]);
        let before = snapshot_blobs(&work);
        let all: Vec<String> = before.iter().map(|(n, _)| n.clone()).collect();
        let r = if N == 8 {
            block_on_catch(true, mismatch_case::<4>(&work, meta, "key-size", &before, &all))
        } else {
            block_on_catch(true, mismatch_case::<8>(&work, meta, "key-size", &before, &all))
        };
        rm_dir(&work);
        record_mismatch(ctx, sh, &name, "key-size", r);
    }
}

fn record_mismatch(ctx: &Ctx, sh: &mut Shard, name: &str, what: &str, r: Result<Result<&'static str, (String, String)>, String>) {
    sh.evaluations += 1;
    sh.nontrivial.insert(fnv(format!("{}|{}", name, what).as_bytes()));
    match r {
        Ok(Ok(outcome)) => sh.add(&format!("mismatch_{}_{}", what, outcome), 1),
        Ok(Err((sig, detail))) => sh.violation(&ctx.known, "C17", ctx.seed, &format!("C17/mismatch/{}", sig), &format!("{} ({}): {}", name, what, detail), json!({"check": "c17-mismatch", "dir": name, "what": what})),
        Err(p) => sh.violation(&ctx.known, "C17", ctx.seed, &format!("C17/mismatch/{}/panic", what), &format!("{}: {}", name, p), json!({"check": "c17-mismatch", "dir": name, "what": what})),
    }
}

fn vector_key(len: usize, pattern: u64) -> Vec<u8> {
    match pattern {
        0 => (0..len).map(|i| ((i * 37 + len * 11 + 5) & 0xff) as u8).collect(),
        1 => vec![0xFF; len],
        _ => {
            let mut k = vec![0u8; len];
            k[len - 1] = 1;
            k
        }
    }
}

/// Bloom vectors: filters of the pinned tree holding exactly one key (key lengths 1..80 and some up to 1000, three
/// byte patterns, two filter geometries). The current tree must (a) build the byte-identical serialised filter for
/// the same key and configuration - same hash function for every length class, same bit order, same serialisation -
/// and (b) find the key in the recorded filter after `from_raw`, and must not find 40 other keys more often than the
/// recorded filter's own geometry allows (a filter read back with all bits set would pass (b) alone).
fn bloom_vectors(ctx: &Ctx, sh: &mut Shard, corpus: &Path) {
    let v: Value = match crate::evidence::read_json(&corpus.join("bloom_vectors.json")) {
        Some(v) => v,
        None => {
            sh.inconclusive.push("corpus/bloom_vectors.json unreadable".into());
            return;
        }
    };
    let cfgs = [
        BloomConfig { elements: 50, hashers_count: 2, max_buf_bits_count: 1001, buf_increase_step: 7, preferred_false_positive_rate: 0.01 },
        BloomConfig { elements: 30, hashers_count: 5, max_buf_bits_count: 333, buf_increase_step: 13, preferred_false_positive_rate: 0.001 },
    ];
    let unhex = |h: &str| -> Vec<u8> { (0..h.len() / 2).filter_map(|i| u8::from_str_radix(&h[2 * i..2 * i + 2], 16).ok()).collect() };
    for e in v["vectors"].as_array().cloned().unwrap_or_default() {
        let (ci, len, pattern) = (e["cfg"].as_u64().unwrap_or(0) as usize, e["len"].as_u64().unwrap_or(1) as usize, e["pattern"].as_u64().unwrap_or(0));
        let recorded = unhex(e["raw"].as_str().unwrap_or(""));
        let key = vector_key(len, pattern);
        let name = format!("bloom-vector cfg{} len{} pattern{}", ci, len, pattern);
        sh.evaluations += 1;
        sh.add("bloom_vectors_compared", 1);
        sh.nontrivial.insert(fnv(name.as_bytes()));
        let r = std::panic::catch_unwind(|| -> Result<(), (String, String)> {
            let b = pearl::Bloom::new(cfgs[ci.min(1)].clone());
            b.add(&key).map_err(|e| ("bloom-vector/add-failed".to_string(), format!("{:#}", e)))?;
            let raw = b.to_raw().map_err(|e| ("bloom-vector/to_raw-failed".to_string(), format!("{:#}", e)))?;
            if raw != recorded {
                let at = raw.iter().zip(recorded.iter()).position(|(a, b)| a != b).unwrap_or(raw.len().min(recorded.len()));
                return Err(("bloom-vector/serialised-filter-differs".to_string(), format!("the filter built for a {}-byte key differs from the one the pinned tree built (first difference at byte {} of {} / {})", len, at, raw.len(), recorded.len())));
            }
            let old = pearl::Bloom::from_raw(&recorded).map_err(|e| ("bloom-vector/from_raw-failed".to_string(), format!("{:#}", e)))?;
            if old.contains_in_memory(&key) != Some(pearl::FilterResult::NeedAdditionalCheck) {
                return Err(("bloom-vector/recorded-filter-false-negative".to_string(), format!("the pinned tree's filter no longer contains its {}-byte key", len)));
            }
            let mut hits = 0;
            for o in 0..40u64 {
                let mut other = key.clone();
                other[0] ^= (o as u8).wrapping_mul(7).wrapping_add(1);
                other.push(o as u8);
                if old.contains_in_memory(&other) != Some(pearl::FilterResult::NotContains) {
                    hits += 1;
                }
            }
            if hits > 8 {
                return Err(("bloom-vector/recorded-filter-answers-maybe-for-everything".to_string(), format!("{} of 40 other keys are reported as possibly present in a filter holding one key", hits)));
            }
            Ok(())
        });
        match r {
            Ok(Ok(())) => {}
            Ok(Err((sig, d))) => sh.violation(&ctx.known, "C17", ctx.seed, &format!("C17/{}", sig), &format!("{}: {}", name, d), json!({"check": "c17-bloom-vector", "vector": name})),
            Err(_) => {
                let p = crate::runner::take_panics();
                sh.violation(&ctx.known, "C17", ctx.seed, "C17/bloom-vector/panic", &format!("{}: {:?}", name, p.last()), json!({"check": "c17-bloom-vector", "vector": name}));
            }
        }
    }
}

pub fn shard(ctx: &Ctx) -> Shard {
    let mut sh = Shard::default();
    let corpus: PathBuf = verif_root().join("corpus");
    if ctx.shard == ctx.shards - 1 {
        bloom_vectors(ctx, &mut sh, &corpus);
    }
    let mut dirs: Vec<PathBuf> = match std::fs::read_dir(&corpus) {
        Ok(rd) => rd.flatten().map(|e| e.path()).filter(|p| p.is_dir() && p.join("answers.json").exists()).collect(),
        Err(e) => {
            sh.inconclusive.push(format!("corpus directory {} unreadable: {}", corpus.display(), e));
            return sh;
        }
    };
    dirs.sort();
    if ctx.shard == 0 {
        sh.add("corpus_directories", dirs.len() as u64);
    }
    for (i, d) in dirs.iter().enumerate() {
        if i % ctx.shards != ctx.shard {
            continue;
        }
        let meta: Value = match crate::evidence::read_json(&d.join("answers.json")) {
            Some(m) => m,
            None => {
                sh.inconclusive.push(format!("{}: answers.json unreadable", d.display()));
                continue;
            }
        };
        match meta["keylen"].as_u64().unwrap_or(0) {
            4 => run_dir::<4>(ctx, &mut sh, d, &meta),
            8 => run_dir::<8>(ctx, &mut sh, d, &meta),
            16 => run_dir::<16>(ctx, &mut sh, d, &meta),
            32 => run_dir::<32>(ctx, &mut sh, d, &meta),
            other => sh.inconclusive.push(format!("{}: unsupported key length {}", d.display(), other)),
        }
    }
    sh
}
