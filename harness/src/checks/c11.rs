//! C11 - I/O fault containment: a failed file operation loses and corrupts nothing else.

use super::common::random_cfg;
use crate::drive::{value_bytes, Cfg, Class, Driver, Mismatch, S_ALL_QUERIES};
use crate::evidence::{Meta, Shard};
use crate::ops::{gen_history, history_json, history_short, Op, Profile};
use crate::rng::{fnv, Rng};
use crate::runner::{block_on_catch, new_dir, rm_dir, Ctx, Plan};
use pearl::verif::tap;
use pearl::verif::tap::{Action, Fault, Kind};
use serde_json::{json, Value};
use std::collections::BTreeMap;

pub fn plan() -> Plan {
    Plan {
        meta: Meta {
            property: "C11",
            level: "fault_enumeration",
            rule: "for a random history (puts, deletes incl. into closed blobs, rotations, background dumps, force updates, restarts) a fault-free run first counts the tap operations per (kind, file class); then the history is re-run once per (fault class, n) with 'the n-th operation of that kind fails' (quick: <=150 sampled per history with every class covered, thorough: all). Fault classes: blob write EIO, blob short write (m bytes then ENOSPC), blob sync EIO, blob create ENOSPC, blob open EIO, index write/create/sync/positional-write failures, index open EIO. Oracle: at the faulted step the client call returns Err or (background task / swallowed) nothing is acknowledged wrongly; after the fault is cleared every record acknowledged BEFORE the fault reads back with correct bytes after every following step (full query surface against the model, the failed operation is not in the model); the failed operation is never served later, also not after restart; further writes/deletes are accepted and readable; the worker still rotates (force update creates a new blob); after a final clean restart every acknowledged record is served or its bytes sit in a quarantined blob file. Keys touched by a partially applied multi-blob delete are excluded (tainted). Non-trivial = case in which the fault actually fired; distinct = hash(history, fault class, n).",
            assumptions: vec!["faults are injected at the File layer of pearl (H1 failpoints), one per run", "verdict holds for the histories and fault positions generated for this seed"],
        },
        shards: 16,
        soft_s: (28, 600),
        exhaustive: None,
        min_evaluations: 200,
        extra: None,
    }
}

fn profile() -> Profile {
    Profile {
        n_keys: 4, ts_max: 4, n_meta: 0, len_min: 10, len_max: 24,
        w_put: 36, w_put_meta: 0, w_del: 14, w_del_meta: 0, w_burst: 0, w_rotate: 10,
        w_close: 3, w_create: 2, w_restore: 3, w_bg: 2, w_force: 5, w_dump: 8, w_dump_nowait: 2,
        w_offload: 0, w_fsync: 3, w_restart: 5, restart_rm_idx: true, big_values: false,
    }
}

#[derive(Clone, Debug)]
struct FaultClass {
    label: &'static str,
    kinds: Vec<Kind>,
    suffix: &'static str,
    /// 0 = Fail(EIO), 1 = Fail(ENOSPC), 2 = Short
    mode: u8,
}

fn classes() -> Vec<FaultClass> {
    vec![
        FaultClass { label: "blob-write-eio", kinds: vec![Kind::Write], suffix: ".blob", mode: 0 },
        FaultClass { label: "blob-write-short", kinds: vec![Kind::Write], suffix: ".blob", mode: 2 },
        FaultClass { label: "blob-sync-eio", kinds: vec![Kind::Sync], suffix: ".blob", mode: 0 },
        FaultClass { label: "blob-create-enospc", kinds: vec![Kind::Create], suffix: ".blob", mode: 1 },
        FaultClass { label: "blob-open-eio", kinds: vec![Kind::Open], suffix: ".blob", mode: 0 },
        FaultClass { label: "index-write-enospc", kinds: vec![Kind::Write], suffix: ".index", mode: 1 },
        FaultClass { label: "index-create-enospc", kinds: vec![Kind::Create, Kind::Truncate], suffix: ".index", mode: 1 },
        FaultClass { label: "index-sync-eio", kinds: vec![Kind::Sync], suffix: ".index", mode: 0 },
        FaultClass { label: "index-writeat-eio", kinds: vec![Kind::WriteAt], suffix: ".index", mode: 0 },
        FaultClass { label: "index-open-eio", kinds: vec![Kind::Open], suffix: ".index", mode: 0 },
    ]
}

struct CaseOut {
    violation: Option<(String, String)>,
    fired: bool,
    outcome: &'static str,
    fault_step: Option<String>,
    quarantined: u64,
    compared: u64,
}

#[allow(dead_code)]
fn is_lifecycle(op: &Op) -> bool {
    !matches!(op, Op::Put { .. } | Op::Del { .. } | Op::Fsync | Op::Offload { .. } | Op::Dump | Op::DumpNoWait)
}

/// after a restart under/after faults: align the model with the directory (quarantined and leftover blobs)
fn resync_dir<const N: usize>(d: &mut Driver<N>, out: &mut CaseOut) -> Result<(), (String, String)> {
    let ids = d.dir_blob_ids();
    let model_ids: Vec<usize> = d.model.blobs.keys().copied().collect();
    for id in model_ids {
        if !ids.contains(&id) {
            // must be preserved in corrupted/: every acknowledged record's bytes are in the file
            if d.model.blobs[&id].is_empty() {
                // nothing acknowledged in it (e.g. a blob whose creation failed half-way)
                d.model.blobs.remove(&id);
                d.model.closed.retain(|c| *c != id);
                if d.model.active == Some(id) {
                    d.model.active = None;
                }
                continue;
            }
            let q = d.dir.join("corrupted").join(format!("t.{}.blob", id));
            let bytes = match std::fs::read(&q) {
                Ok(b) => b,
                Err(_) => return Err(("blob-vanished".into(), format!("blob {} with {} acknowledged records is neither in the work dir nor in corrupted/", id, d.model.blobs[&id].len()))),
            };
            for r in d.model.blobs[&id].iter().filter(|r| !r.del && r.size >= 8) {
                let v = value_bytes(r.val, r.size);
                if !bytes.windows(v.len()).any(|w| w == v.as_slice()) {
                    return Err(("quarantined-blob-lost-record".into(), format!("quarantined blob {} does not contain the bytes of an acknowledged {} B record", id, r.size)));
                }
            }
            d.model.quarantine(id);
            out.quarantined += 1;
        }
    }
    for id in ids {
        if !d.model.blobs.contains_key(&id) {
            d.model.blobs.insert(id, Vec::new());
            d.model.ids_ever.insert(id);
        }
    }
    Ok(())
}

async fn run_case<const N: usize>(d: &mut Driver<N>, ops: &[Op], fault: Option<Fault>, label: &str) -> CaseOut {
    let mut out = CaseOut { violation: None, fired: false, outcome: "not-fired", fault_step: None, quarantined: 0, compared: 0 };
    let dir = d.dir.clone();
    tap::arm(&dir, false, false);
    macro_rules! fail {
        ($sig:expr, $detail:expr) => {{
            out.violation = Some(($sig, $detail));
            if let Some(s) = d.storage.take() {
                let _ = tokio::time::timeout(std::time::Duration::from_secs(5), s.close()).await;
            }
            let _ = tap::disarm(&dir);
            out.compared = d.stats.compared;
            return out;
        }};
    }
    d.model.relaxed = true;
    if let Err(m) = d.open(false).await {
        fail!("init-failed-on-empty-dir".to_string(), m.detail);
    }
    if let Some(f) = fault.clone() {
        tap::set_faults(&dir, vec![f]);
    }
    let mut fault_active = fault.is_some();
    for op in ops.iter() {
        let backup = d.model.clone();
        let r = d.step(op).await;
        let worker_ok = match d.storage.as_ref() {
            Some(s) => s.verif_barrier(true).await,
            None => true,
        };
        let ev = tap::drain(&dir);
        let injected_now = ev.iter().any(|e| e.injected);
        if injected_now {
            out.fired = true;
            fault_active = false;
            tap::clear_faults(&dir);
            out.fault_step = Some(op.short());
        }
        if !worker_ok {
            fail!(format!("worker-dead/{}", label), format!("background worker died at step {} ({}){}", d.step, op.short(), if injected_now { " under the injected fault" } else { "" }));
        }
        match r {
            Ok(()) => {
                if injected_now {
                    out.outcome = "acknowledged (fault hit a background task or was contained)";
                }
            }
            Err(m) if injected_now => {
                out.outcome = "client call returned an error";
                // the failed operation is absent from the model
                d.model = backup;
                match op {
                    Op::Del { k, .. } => {
                        d.tainted.insert(*k);
                    }
                    Op::Put { .. } => {}
                    Op::Restart { lazy, .. } => {
                        // either close() or init failed: retry a plain init with the fault cleared
                        if let Some(s) = d.storage.take() {
                            let _ = s.close().await;
                        }
                        if m.class == Class::Close {
                            out.outcome = "close returned an error";
                        } else {
                            out.outcome = "init returned an error";
                        }
                        if let Err(m2) = d.open(*lazy).await {
                            fail!(format!("init-fails-after-fault-cleared/{}", label), format!("init keeps failing after the fault was cleared: {}", m2.detail));
                        }
                        if let Err((sig, det)) = resync_dir(d, &mut out) {
                            fail!(format!("{}/{}", sig, label), det);
                        }
                        d.resync_lifecycle().await;
                    }
                    _ => {}
                }
            }
            Err(m) => {
                let when = if out.fired { "after-fault" } else { "before-fault" };
                if !out.fired && fault.is_some() {
                    // disagreement that has nothing to do with the fault: owned by the model checks
                    out.outcome = "desync";
                    if let Some(s) = d.storage.take() {
                        let _ = s.close().await;
                    }
                    let _ = tap::disarm(&dir);
                    return out;
                }
                fail!(format!("{}/{}/{}", m.sig, when, label), format!("step {} ({}): {}", d.step, op.short(), m.detail));
            }
        }
        if d.storage.is_some() {
            if injected_now {
                // whatever the failed call did to the placement (a blob created before the failing write,
                // an id consumed by a failed creation, ...) is read back from the storage
                d.resync_lifecycle().await;
            }
            if out.fired {
                if let Op::Restart { lazy, .. } = op {
                    if let Err((sig, det)) = resync_dir(d, &mut out) {
                        fail!(format!("{}/{}", sig, label), det);
                    }
                    let _ = lazy;
                    d.resync_lifecycle().await;
                }
            }
        }
        if let Err(m) = d.check(S_ALL_QUERIES).await {
            let when = if out.fired { "after-fault" } else { "before-fault" };
            if !out.fired && fault.is_some() {
                out.outcome = "desync";
                if let Some(s) = d.storage.take() {
                    let _ = s.close().await;
                }
                let _ = tap::disarm(&dir);
                return out;
            }
            fail!(format!("{}/{}/{}", m.sig, when, label), format!("after step {} ({}): {}", d.step, op.short(), m.detail));
        }
    }
    if fault_active {
        tap::clear_faults(&dir);
    }
    // liveness after the fault: the worker still rotates, writes are accepted and readable
    let before = d.dir_blob_ids().len();
    d.resync_lifecycle().await;
    for op in [Op::ForceUpdate { pred: true }, Op::Put { k: 0, ts: 9, meta: None, size: 33 }, Op::Del { k: 1, ts: 9, meta: None, only_if: false }] {
        if let Err(m) = d.step(&op).await {
            fail!(format!("post-fault-op-failed/{}/{}", m.sig, label), format!("after the fault cleared, {} failed: {}", op.short(), m.detail));
        }
    }
    if d.dir_blob_ids().len() <= before {
        fail!(format!("no-rotation-after-fault/{}", label), "force_update_active_blob did not create a new blob after the fault cleared".to_string());
    }
    if let Err(m) = d.check(S_ALL_QUERIES).await {
        fail!(format!("{}/post-fault-ops/{}", m.sig, label), m.detail);
    }
    // final clean restart
    if let Err(m) = d.close().await {
        fail!(format!("close-failed-after-fault-cleared/{}", label), m.detail);
    }
    if let Err(m) = d.open(false).await {
        fail!(format!("init-failed-after-fault-cleared/{}", label), format!("final restart: {}", m.detail));
    }
    if let Err((sig, det)) = resync_dir(d, &mut out) {
        fail!(format!("{}/{}", sig, label), det);
    }
    d.resync_lifecycle().await;
    if let Err(m) = d.check(S_ALL_QUERIES).await {
        fail!(format!("{}/after-restart/{}", m.sig, label), format!("after the final restart: {}", m.detail));
    }
    let _ = d.close().await;
    let _ = tap::disarm(&dir);
    out.compared = d.stats.compared;
    out
}

#[allow(dead_code)]
fn r_is_ok_lifecycle(op: &Op) -> bool {
    matches!(op, Op::ForceUpdate { .. } | Op::CloseBg | Op::CreateBg | Op::RestoreBg)
}

/// fault-free run: counts the operations per fault class
async fn count_ops<const N: usize>(d: &mut Driver<N>, ops: &[Op]) -> Result<BTreeMap<&'static str, u64>, Mismatch> {
    let dir = d.dir.clone();
    tap::arm(&dir, false, false);
    let mut counts: BTreeMap<&'static str, u64> = BTreeMap::new();
    let r: Result<(), Mismatch> = async {
        d.open(false).await?;
        let _ = tap::drain(&dir); // operations of the first init are not fault targets
        for op in ops {
            d.step(op).await?;
            if let Some(s) = d.storage.as_ref() {
                s.verif_barrier(true).await;
            }
        }
        d.close().await?;
        Ok(())
    }
    .await;
    let ev = tap::disarm(&dir);
    r?;
    for c in classes() {
        let n = ev.iter().filter(|e| c.kinds.contains(&e.kind) && e.path.to_string_lossy().ends_with(c.suffix)).count() as u64;
        counts.insert(c.label, n);
    }
    Ok(counts)
}

fn eval_history<const N: usize>(ctx: &Ctx, sh: &mut Shard, rng: &mut Rng, cfg: &Cfg, ops: &[Op], hid: u64) {
    let dir = new_dir("c11-");
    let mut d: Driver<N> = Driver::new(dir.clone(), cfg.clone(), hid);
    let counts = match block_on_catch(cfg.mt, count_ops(&mut d, ops)) {
        Ok(Ok(c)) => c,
        Ok(Err(m)) => {
            sh.add("desync_histories", 1);
            if sh.notes.len() < 3 {
                sh.notes.push(format!("fault-free run disagreed with the model ({}): {}", m.class.name(), m.detail));
            }
            rm_dir(&dir);
            return;
        }
        Err(p) => {
            sh.violation(&ctx.known, "C11", ctx.seed, "C11/panic-in-fault-free-run", &p, json!({"check": "c11", "cfg": cfg.to_json(), "history": history_json(ops)}));
            rm_dir(&dir);
            return;
        }
    };
    rm_dir(&dir);
    sh.add("fault_free_runs", 1);
    // (class, n) list
    let mut cases: Vec<(FaultClass, u64)> = Vec::new();
    for c in classes() {
        for n in 0..counts.get(c.label).copied().unwrap_or(0) {
            cases.push((c.clone(), n));
        }
    }
    let budget = if ctx.thorough() { usize::MAX } else { 150 };
    if cases.len() > budget {
        // keep every class represented: shuffle within, then round-robin over classes
        rng.shuffle(&mut cases);
        let mut by: BTreeMap<&'static str, Vec<(FaultClass, u64)>> = BTreeMap::new();
        for c in cases.drain(..) {
            by.entry(c.0.label).or_default().push(c);
        }
        let mut picked = Vec::new();
        while picked.len() < budget {
            let mut any = false;
            for v in by.values_mut() {
                if let Some(c) = v.pop() {
                    picked.push(c);
                    any = true;
                }
            }
            if !any {
                break;
            }
        }
        cases = picked;
    }
    for (c, n) in cases {
        if !ctx.time_left() {
            sh.add("cases_skipped_time_budget", 1);
            continue;
        }
        let action = match c.mode {
            0 => Action::Fail(libc::EIO),
            1 => Action::Fail(libc::ENOSPC),
            _ => Action::Short(rng.range(1, 60), libc::ENOSPC),
        };
        let fault = Fault { kinds: c.kinds.clone(), suffix: c.suffix.to_string(), nth: n, sticky: false, action: action.clone() };
        let dir = new_dir("c11-");
        let mut d: Driver<N> = Driver::new(dir.clone(), cfg.clone(), hid);
        let r = block_on_catch(cfg.mt, run_case(&mut d, ops, Some(fault), c.label));
        rm_dir(&dir);
        sh.evaluations += 1;
        let replay: Value = json!({"check": "c11", "cfg": cfg.to_json(), "hist_id": hid, "history": history_json(ops), "short": history_short(ops), "fault": {"class": c.label, "nth": n, "action": format!("{:?}", action)}});
        match r {
            Ok(out) => {
                sh.add("queries_compared", out.compared);
                sh.add("blobs_quarantined_at_restart", out.quarantined);
                if out.fired {
                    sh.add(&format!("fired_{}", c.label), 1);
                    sh.add(&format!("outcome: {}", out.outcome), 1);
                    sh.nontrivial.insert(fnv(format!("{}|{}|{}", history_short(ops), c.label, n).as_bytes()));
                    if sh.samples.len() < 2 {
                        sh.sample(json!({"history": history_short(ops), "fault": c.label, "nth": n, "fired_at_step": out.fault_step, "outcome": out.outcome}));
                    }
                } else {
                    sh.add("fault_not_reached", 1);
                }
                if let Some((sig, detail)) = out.violation {
                    sh.violation(&ctx.known, "C11", ctx.seed, &format!("C11/{}", sig), &format!("fault {} #{} (fired at {:?}): {}", c.label, n, out.fault_step, detail), replay);
                }
            }
            Err(p) => {
                let short: String = p.chars().take(90).collect();
                sh.violation(&ctx.known, "C11", ctx.seed, &format!("C11/panic/{}", c.label), &format!("fault {} #{}: panic {}", c.label, n, short), replay);
            }
        }
    }
}

pub fn shard(ctx: &Ctx) -> Shard {
    let mut sh = Shard::default();
    let mut rng = Rng::new(ctx.shard_seed());
    let p = profile();
    let mut n = 0u64;
    while ctx.time_left() {
        let mut cfg = random_cfg(&mut rng, p.n_keys, p.n_meta, Some(true));
        cfg.validate_data = rng.chance(1, 3);
        let ops = gen_history(&mut rng, &p);
        let hid = ((ctx.shard as u64) << 20) | n;
        match cfg.keylen {
            4 => eval_history::<4>(ctx, &mut sh, &mut rng, &cfg, &ops, hid),
            32 => eval_history::<32>(ctx, &mut sh, &mut rng, &cfg, &ops, hid),
            _ => eval_history::<8>(ctx, &mut sh, &mut rng, &cfg, &ops, hid),
        }
        n += 1;
    }
    sh.add("histories", n);
    sh
}
