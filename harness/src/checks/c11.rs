//! C11 - I/O fault containment: a failed file operation loses and corrupts nothing else.

use super::common::random_cfg;
use crate::drive::{value_bytes, Cfg, Class, Driver, Mismatch, S_ALL_QUERIES};
use crate::evidence::{Meta, Shard};
use crate::ops::{gen_history, history_json, history_short, Op, Profile};
use crate::rng::{fnv, Rng};
use crate::runner::{block_on_catch, new_dir, rm_dir, Ctx, Plan};
use pearl::verif::tap;
use pearl::verif::tap::{Action, Fault, Kind};
use serde_json::{json, Value};
use std::collections::BTreeMap;

pub fn plan() -> Plan {
    Plan {
        meta: Meta {
            property: "C11",
            level: "fault_enumeration",
            rule: "for a random history (puts, deletes incl. into closed blobs, rotations, background dumps, force updates, restarts) a fault-free run first counts the tap operations per (kind, file class); then the history is re-run once per (fault class, n) with 'the n-th operation of that kind fails' (quick: <=150 sampled per history with every class covered, thorough: all). Fault classes: blob write EIO, blob short write (m bytes then ENOSPC), blob sync EIO, blob create ENOSPC, blob open EIO / EACCES, blob write ENOENT (the kind pearl reports as 'work dir unavailable'), index write/create/sync/positional-write failures, index open EIO / EACCES (for which pearl refuses to regenerate the index). Oracle: at the faulted step the client call returns Err or (background task / swallowed) nothing is acknowledged wrongly; after the fault is cleared every record acknowledged BEFORE the fault reads back with correct bytes after every following step (full query surface against the model, the failed operation is not in the model); the failed operation is never served later, also not after restart; further writes/deletes are accepted and readable; the worker still rotates (force update creates a new blob); after a final clean restart every acknowledged record is served or its bytes sit in a quarantined blob file. Keys touched by a partially applied multi-blob delete are excluded (tainted). A quarter of the histories run with ignore_corrupted: a blob that init skipped under a fault is parked (its file must still hold every acknowledged record) and must be served again by the next init that lists it. A second engine lowers RLIMIT_FSIZE for one step (SIGXFSZ ignored), so the kernel itself cuts a write short (EFBIG) at blob end + 0..120 bytes or at an absolute 0..6000 bytes: nothing between the system call and the error handling is bypassed. After the fault, for every served blob whose file parses to its end, the reported record count must lie between the records of acknowledged appends in the file and that number plus the records left behind by failed appends. Non-trivial = case in which the fault actually fired; distinct = hash(history, fault class, n).",
            assumptions: vec!["faults are injected at the File layer of pearl (H1 failpoints), one per run", "verdict holds for the histories and fault positions generated for this seed"],
        },
        shards: 16,
        soft_s: (28, 600),
        exhaustive: None,
        min_evaluations: 200,
        extra: None,
    }
}

fn profile() -> Profile {
    Profile {
        n_keys: 4, ts_max: 4, n_meta: 0, len_min: 10, len_max: 24,
        w_put: 36, w_put_meta: 0, w_del: 14, w_del_meta: 0, w_burst: 0, w_rotate: 10,
        w_close: 3, w_create: 2, w_restore: 3, w_bg: 2, w_force: 5, w_dump: 8, w_dump_nowait: 2,
        w_offload: 0, w_fsync: 3, w_restart: 5, restart_rm_idx: true, big_values: false,
    }
}

#[derive(Clone, Debug)]
struct FaultClass {
    label: &'static str,
    kinds: Vec<Kind>,
    suffix: &'static str,
    /// 0 = Fail(EIO), 1 = Fail(ENOSPC), 2 = Short, 3 = Fail(ENOENT) (the only error kind pearl maps to "work dir unavailable"),
    /// 4 = Fail(EACCES) (PermissionDenied: index regeneration is refused for this kind instead of falling back to the blob)
    mode: u8,
}

fn classes() -> Vec<FaultClass> {
    vec![
        FaultClass { label: "blob-write-eio", kinds: vec![Kind::Write], suffix: ".blob", mode: 0 },
        FaultClass { label: "blob-write-short", kinds: vec![Kind::Write], suffix: ".blob", mode: 2 },
        FaultClass { label: "blob-write-enoent", kinds: vec![Kind::Write], suffix: ".blob", mode: 3 },
        FaultClass { label: "blob-sync-eio", kinds: vec![Kind::Sync], suffix: ".blob", mode: 0 },
        FaultClass { label: "blob-create-enospc", kinds: vec![Kind::Create], suffix: ".blob", mode: 1 },
        FaultClass { label: "blob-open-eio", kinds: vec![Kind::Open], suffix: ".blob", mode: 0 },
        FaultClass { label: "index-write-enospc", kinds: vec![Kind::Write], suffix: ".index", mode: 1 },
        FaultClass { label: "index-create-enospc", kinds: vec![Kind::Create, Kind::Truncate], suffix: ".index", mode: 1 },
        FaultClass { label: "index-sync-eio", kinds: vec![Kind::Sync], suffix: ".index", mode: 0 },
        FaultClass { label: "index-writeat-eio", kinds: vec![Kind::WriteAt], suffix: ".index", mode: 0 },
        FaultClass { label: "index-open-eio", kinds: vec![Kind::Open], suffix: ".index", mode: 0 },
        FaultClass { label: "index-open-eacces", kinds: vec![Kind::Open], suffix: ".index", mode: 4 },
        FaultClass { label: "blob-open-eacces", kinds: vec![Kind::Open], suffix: ".blob", mode: 4 },
    ]
}

struct CaseOut {
    violation: Option<(String, String)>,
    fired: bool,
    outcome: &'static str,
    fault_step: Option<String>,
    quarantined: u64,
    compared: u64,
    parked: u64,
    unparked: u64,
    /// known-finding candidates: (signature, detail); reported through the known-findings matcher
    side: Vec<(String, String)>,
    failed_put_key_err: u64,
    count_checks: u64,
}

#[allow(dead_code)]
fn is_lifecycle(op: &Op) -> bool {
    !matches!(op, Op::Put { .. } | Op::Del { .. } | Op::Fsync | Op::Offload { .. } | Op::Dump | Op::DumpNoWait)
}

/// after a restart under/after faults: align the model with the directory (quarantined and leftover blobs)
fn resync_dir<const N: usize>(d: &mut Driver<N>, out: &mut CaseOut) -> Result<(), (String, String)> {
    let ids = d.dir_blob_ids();
    let model_ids: Vec<usize> = d.model.blobs.keys().copied().collect();
    for id in model_ids {
        if !ids.contains(&id) {
            // must be preserved in corrupted/: every acknowledged record's bytes are in the file
            if d.model.blobs[&id].is_empty() {
                // nothing acknowledged in it (e.g. a blob whose creation failed half-way)
                d.model.blobs.remove(&id);
                d.model.closed.retain(|c| *c != id);
                if d.model.active == Some(id) {
                    d.model.active = None;
                }
                continue;
            }
            let q = d.dir.join("corrupted").join(format!("t.{}.blob", id));
            let bytes = match std::fs::read(&q) {
                Ok(b) => b,
                Err(_) => return Err(("blob-vanished".into(), format!("blob {} with {} acknowledged records is neither in the work dir nor in corrupted/", id, d.model.blobs[&id].len()))),
            };
            for r in d.model.blobs[&id].iter().filter(|r| !r.del && r.size >= 8) {
                let v = value_bytes(r.val, r.size);
                if !bytes.windows(v.len()).any(|w| w == v.as_slice()) {
                    return Err(("quarantined-blob-lost-record".into(), format!("quarantined blob {} does not contain the bytes of an acknowledged {} B record", id, r.size)));
                }
            }
            d.model.quarantine(id);
            out.quarantined += 1;
        }
    }
    for id in ids {
        if !d.model.blobs.contains_key(&id) {
            d.model.blobs.insert(id, Vec::new());
            d.model.ids_ever.insert(id);
        }
    }
    Ok(())
}

/// ignore_corrupted mode: a blob that could not be opened / loaded at init is left in place and not served.
/// Such blobs are "parked": taken out of the model (the storage answers without them) after checking that the
/// file still holds the bytes of every acknowledged record, and put back as soon as a later init lists their
/// id again - from then on all their records must be served again.
async fn park_ignored<const N: usize>(d: &mut Driver<N>, parked: &mut BTreeMap<usize, Vec<crate::model::Rec>>, out: &mut CaseOut) -> Result<(), (String, String)> {
    // ids the storage serves: closed blobs by id, the active blob's id through the tap (its entry carries a position)
    let det = d.st().records_count_detailed().await;
    let active = d.probe_active_id().await;
    let n_closed = if active.is_some() { det.len().saturating_sub(1) } else { det.len() };
    let listed: Vec<usize> = det.iter().take(n_closed).map(|x| x.0).chain(active.into_iter()).collect();
    // un-park: the id is served again (by the same file: ids are never reused)
    let back: Vec<usize> = parked.keys().copied().filter(|id| listed.contains(id)).collect();
    for id in back {
        let mut recs = parked.remove(&id).unwrap();
        if let Some(newer) = d.model.blobs.get(&id) {
            recs.extend(newer.iter().cloned());
        }
        d.model.blobs.insert(id, recs);
        d.model.ids_ever.insert(id);
        out.unparked += 1;
    }
    let on_disk = d.dir_blob_ids();
    let model_ids: Vec<usize> = d.model.blobs.keys().copied().collect();
    for id in model_ids {
        if listed.contains(&id) || !on_disk.contains(&id) || d.model.blobs[&id].is_empty() {
            continue;
        }
        let bytes = std::fs::read(d.dir.join(format!("t.{}.blob", id))).unwrap_or_default();
        for r in d.model.blobs[&id].iter().filter(|r| !r.del && r.size >= 8) {
            let v = value_bytes(r.val, r.size);
            if !bytes.windows(v.len()).any(|w| w == v.as_slice()) {
                return Err(("ignored-blob-lost-record".into(), format!("blob {} was skipped at init (ignore_corrupted) and its file no longer contains the bytes of an acknowledged {} B record", id, r.size)));
            }
        }
        let recs = d.model.blobs.remove(&id).unwrap();
        d.model.closed.retain(|c| *c != id);
        if d.model.active == Some(id) {
            d.model.active = None;
        }
        parked.insert(id, recs);
        out.parked += 1;
    }
    Ok(())
}

/// Real kernel failures instead of failpoints: RLIMIT_FSIZE is lowered for the duration of one step, so that
/// the write crossing the limit is cut short by the kernel and fails with EFBIG (SIGXFSZ ignored), like a
/// full disk. Nothing between the system call and pearl's error handling is bypassed.
#[derive(Clone, Debug)]
pub struct RlimitFault {
    pub step: usize,
    /// limit = size of the active blob file + `extra` (relative) or `extra` itself (absolute)
    pub extra: u64,
    pub absolute: bool,
}

struct FsizeGuard {
    old: libc::rlimit,
}

impl FsizeGuard {
    fn lower(limit: u64) -> Option<FsizeGuard> {
        unsafe {
            libc::signal(libc::SIGXFSZ, libc::SIG_IGN);
            let mut old = libc::rlimit { rlim_cur: 0, rlim_max: 0 };
            if libc::getrlimit(libc::RLIMIT_FSIZE, &mut old) != 0 {
                return None;
            }
            let new = libc::rlimit { rlim_cur: limit as libc::rlim_t, rlim_max: old.rlim_max };
            if libc::setrlimit(libc::RLIMIT_FSIZE, &new) != 0 {
                return None;
            }
            Some(FsizeGuard { old })
        }
    }
}

impl Drop for FsizeGuard {
    fn drop(&mut self) {
        unsafe {
            libc::setrlimit(libc::RLIMIT_FSIZE, &self.old);
        }
    }
}

/// Keys that have, in a served blob file, a record with an intact header at the offset of an append that FAILED
/// (failpoint or kernel short write). Its data may be torn, or - when the cut fell into trailing zero bytes, e.g.
/// the empty metadata of a plain deletion marker, and later appends filled the hole - the record may even be
/// complete. Either way it was never acknowledged and a regeneration of the index will pick it up.
fn failed_append_keys<const N: usize>(d: &Driver<N>, failed: &[(usize, u64)]) -> Vec<u16> {
    let mut out = Vec::new();
    for id in d.dir_blob_ids() {
        if !failed.iter().any(|f| f.0 == id) {
            continue;
        }
        if let Ok(bp) = crate::parse::parse_blob_file(&d.dir.join(format!("t.{}.blob", id))) {
            for r in bp.records.iter().filter(|r| r.header_crc_ok && failed.contains(&(id, r.pos))) {
                for k in 0..(d.cfg.n_keys + 2) {
                    if crate::drive::key_bytes(d.cfg.key_salt, k, N) == r.key && !out.contains(&k) {
                        out.push(k);
                    }
                }
            }
        }
    }
    out
}

/// Accounting under faults: for every served blob whose file parses to its end, the record count the storage
/// reports must lie between the number of records of acknowledged appends in the file and that number plus the
/// records left behind by failed appends (which a regeneration of the index counts). A failed operation must not disturb
/// the counters of what was acknowledged before.
async fn counts_vs_files<const N: usize>(d: &mut Driver<N>, failed: &[(usize, u64)]) -> Option<(String, String)> {
    let det = d.st().records_count_detailed().await;
    let active = d.model.active;
    let n_closed = if active.is_some() && d.st().has_active_blob().await { det.len().saturating_sub(1) } else { det.len() };
    let mut list: Vec<(usize, usize, &'static str)> = det.iter().take(n_closed).map(|x| (x.0, x.1, "closed")).collect();
    if n_closed < det.len() {
        if let Some(a) = active {
            list.push((a, det[det.len() - 1].1, "active"));
        }
    }
    for (id, count, what) in list {
        let bp = match crate::parse::parse_blob_file(&d.dir.join(format!("t.{}.blob", id))) {
            Ok(bp) => bp,
            Err(_) => continue,
        };
        if bp.error.is_some() {
            continue;
        }
        // records left behind by failed appends may or may not be counted (in the index only after a regeneration)
        let maybe = bp.records.iter().filter(|r| r.header_crc_ok && failed.contains(&(id, r.pos))).count();
        let sound = bp.records.iter().filter(|r| r.header_crc_ok && !failed.contains(&(id, r.pos))).count();
        if count < sound || count > sound + maybe {
            return Some((format!("records-count-differs-from-blob-file/{}", what), format!("{} blob {} reports {} records, its file holds {} records of acknowledged appends (+ {} left behind by failed appends)", what, id, count, sound, maybe)));
        }
    }
    None
}

/// After a restart that followed the fault: a torn record with an intact header may have been indexed by an
/// index regeneration without data validation. Reads of that key then fail. If the key has acknowledged
/// versions this is reported under one canonical signature (a listed known finding), otherwise (the key was
/// never acknowledged: an error is not "served as if it had succeeded") it is only counted. Either way the
/// key is excluded from the model comparison afterwards.
async fn probe_torn_keys<const N: usize>(d: &mut Driver<N>, out: &mut CaseOut, failed: &[(usize, u64)]) {
    for k in failed_append_keys(d, failed) {
        if d.tainted.contains(&k) {
            continue;
        }
        let key = d.key(k);
        let e1 = d.st().read(&key).await.err().map(|e| format!("{:#}", e));
        let e2 = match d.st().read_all_with_deletion_marker(&key).await {
            Err(e) => Some(format!("{:#}", e)),
            Ok(entries) => {
                let mut err = None;
                for mut en in entries {
                    if en.is_deleted() {
                        continue;
                    }
                    if let Err(e) = en.load_data().await {
                        err = Some(format!("load_data: {:#}", e));
                        break;
                    }
                }
                err
            }
        };
        // indexed or not, the storage may now count the torn record as a live version of the key in that blob
        // (delete counts, listings below a marker): the key leaves the model comparison either way
        d.tainted.insert(k);
        if e1.is_none() {
            // the failed operation itself is served: the classification of the key differs from the model's
            if let Ok(r) = d.st().read(&key).await {
                let got = match &r {
                    pearl::ReadResult::Found(_) => "Found",
                    pearl::ReadResult::Deleted(_) => "Deleted",
                    pearl::ReadResult::NotFound => "NotFound",
                };
                let exp = match d.model.read(k) {
                    crate::model::MRead::Found(_) => "Found",
                    crate::model::MRead::Deleted(_) => "Deleted",
                    crate::model::MRead::NotFound => "NotFound",
                };
                if got != exp {
                    out.side.push(("torn-append-intact-header/failed-operation-served-after-restart".to_string(), format!("an append that returned an error left a complete-looking record of k{} in the blob (the cut fell into trailing zero bytes and later appends filled the hole); after a restart read(k{}) = {}, without that operation it would be {}", k, k, got, exp)));
                }
            }
        }
        if let Some(e) = e1.or(e2) {
            if d.model.ranked(k).is_empty() {
                out.failed_put_key_err += 1;
            } else {
                let short: String = e.chars().take(160).collect();
                out.side.push(("torn-append-intact-header/acknowledged-version-unreadable-after-restart".to_string(), format!("a failed append left a record of k{} with an intact header and torn data in the blob; after a restart reads of k{} fail ({}), although {} acknowledged version(s) of the key exist", k, k, short, d.model.ranked(k).len())));
            }
        }
    }
}

async fn run_case<const N: usize>(d: &mut Driver<N>, ops: &[Op], fault: Option<Fault>, rl: Option<RlimitFault>, label: &str) -> CaseOut {
    let mut out = CaseOut { violation: None, fired: false, outcome: "not-fired", fault_step: None, quarantined: 0, compared: 0, parked: 0, unparked: 0, side: Vec::new(), failed_put_key_err: 0, count_checks: 0 };
    let mut restarted_since_fault = false;
    // (blob id, offset) of appends that failed: what they left in the file was never acknowledged
    let mut failed_appends: Vec<(usize, u64)> = Vec::new();
    let mut parked: BTreeMap<usize, Vec<crate::model::Rec>> = BTreeMap::new();
    let ignore_mode = d.cfg.ignore_corrupted;
    let dir = d.dir.clone();
    tap::arm(&dir, false, false);
    macro_rules! fail {
        ($sig:expr, $detail:expr) => {{
            out.violation = Some(($sig, $detail));
            if let Some(s) = d.storage.take() {
                let _ = tokio::time::timeout(std::time::Duration::from_secs(5), s.close()).await;
            }
            let _ = tap::disarm(&dir);
            out.compared = d.stats.compared;
            return out;
        }};
    }
    d.model.relaxed = true;
    if let Err(m) = d.open(false).await {
        fail!("init-failed-on-empty-dir".to_string(), m.detail);
    }
    if let Some(f) = fault.clone() {
        tap::set_faults(&dir, vec![f]);
    }
    let mut fault_active = fault.is_some();
    let has_fault = fault.is_some() || rl.is_some();
    for (op_idx, op) in ops.iter().enumerate() {
        let backup = d.model.clone();
        let guard = match rl.as_ref().filter(|r| r.step == op_idx) {
            Some(r) => {
                let base = if r.absolute {
                    0
                } else {
                    d.model.active.and_then(|a| std::fs::metadata(dir.join(format!("t.{}.blob", a))).ok()).map(|m| m.len()).unwrap_or(0)
                };
                FsizeGuard::lower(base + r.extra)
            }
            None => None,
        };
        let lowered = guard.is_some();
        let r = d.step(op).await;
        let worker_ok = match d.storage.as_ref() {
            Some(s) => s.verif_barrier(true).await,
            None => true,
        };
        drop(guard);
        let ev = tap::drain(&dir);
        for e in ev.iter().filter(|e| !e.ok && e.kind == Kind::Write) {
            if e.path.extension().and_then(|x| x.to_str()) == Some("blob") {
                if let Some(id) = crate::tap::blob_id_of(&e.path) {
                    failed_appends.push((id, e.offset));
                }
            }
        }
        let injected_now = ev.iter().any(|e| e.injected) || (lowered && ev.iter().any(|e| !e.ok));
        if injected_now {
            out.fired = true;
            fault_active = false;
            tap::clear_faults(&dir);
            out.fault_step = Some(op.short());
        }
        if !worker_ok {
            fail!(format!("worker-dead/{}", label), format!("background worker died at step {} ({}){}", d.step, op.short(), if injected_now { " under the injected fault" } else { "" }));
        }
        match r {
            Ok(()) => {
                if injected_now {
                    out.outcome = "acknowledged (fault hit a background task or was contained)";
                }
            }
            Err(m) if injected_now => {
                out.outcome = "client call returned an error";
                // the failed operation is absent from the model
                d.model = backup;
                match op {
                    Op::Del { k, .. } => {
                        // a delete that returned Err has marked nothing: the marker for the active blob is appended
                        // first and is the only step that can fail the call, so the key stays under comparison
                        // ("an operation that returned an error is never served later"). A delete that returned Ok
                        // with fewer blobs marked than the model expects (a failed append to a closed blob is
                        // swallowed) is applied partially: that key leaves the comparison
                        if m.class != Class::DataOp {
                            d.tainted.insert(*k);
                            // the markers that were written stay in the model's view of the other blobs: re-apply
                            // nothing, the key is excluded from now on
                        }
                    }
                    Op::Put { .. } => {}
                    Op::Restart { lazy, .. } => {
                        // either close() or init failed: retry a plain init with the fault cleared
                        if let Some(s) = d.storage.take() {
                            let _ = s.close().await;
                        }
                        if m.class == Class::Close {
                            out.outcome = "close returned an error";
                        } else {
                            out.outcome = "init returned an error";
                        }
                        if let Err(m2) = d.open(*lazy).await {
                            fail!(format!("init-fails-after-fault-cleared/{}", label), format!("init keeps failing after the fault was cleared: {}", m2.detail));
                        }
                        if let Err((sig, det)) = resync_dir(d, &mut out) {
                            fail!(format!("{}/{}", sig, label), det);
                        }
                        if ignore_mode {
                            if let Err((sig, det)) = park_ignored(d, &mut parked, &mut out).await {
                                fail!(format!("{}/{}", sig, label), det);
                            }
                        }
                        d.resync_lifecycle().await;
                    }
                    _ => {}
                }
            }
            Err(m) => {
                let when = if out.fired { "after-fault" } else { "before-fault" };
                if !out.fired && has_fault {
                    // disagreement that has nothing to do with the fault: owned by the model checks
                    out.outcome = "desync";
                    if let Some(s) = d.storage.take() {
                        let _ = s.close().await;
                    }
                    let _ = tap::disarm(&dir);
                    return out;
                }
                fail!(format!("{}/{}/{}", m.sig, when, label), format!("step {} ({}): {}", d.step, op.short(), m.detail));
            }
        }
        if d.storage.is_some() {
            if injected_now {
                // whatever the failed call did to the placement (a blob created before the failing write,
                // an id consumed by a failed creation, ...) is read back from the storage
                d.resync_lifecycle().await;
            }
            if out.fired {
                if let Op::Restart { lazy, .. } = op {
                    if let Err((sig, det)) = resync_dir(d, &mut out) {
                        fail!(format!("{}/{}", sig, label), det);
                    }
                    if ignore_mode {
                        if let Err((sig, det)) = park_ignored(d, &mut parked, &mut out).await {
                            fail!(format!("{}/{}", sig, label), det);
                        }
                    }
                    let _ = lazy;
                    d.resync_lifecycle().await;
                }
            }
        }
        if out.fired && matches!(op, Op::Restart { .. }) && !injected_now {
            restarted_since_fault = true;
        }
        if restarted_since_fault && d.storage.is_some() {
            probe_torn_keys(d, &mut out, &failed_appends).await;
        }
        if let Err(m) = d.check(S_ALL_QUERIES).await {
            let when = if out.fired { "after-fault" } else { "before-fault" };
            if !out.fired && has_fault {
                out.outcome = "desync";
                if let Some(s) = d.storage.take() {
                    let _ = s.close().await;
                }
                let _ = tap::disarm(&dir);
                return out;
            }
            fail!(format!("{}/{}/{}", m.sig, when, label), format!("after step {} ({}): {}", d.step, op.short(), m.detail));
        }
        if out.fired && d.storage.is_some() {
            if let Some((sig, detail)) = counts_vs_files(d, &failed_appends).await {
                fail!(format!("{}/{}", sig, label), format!("after step {} ({}): {}", d.step, op.short(), detail));
            }
            out.count_checks += 1;
        }
    }
    if fault_active {
        tap::clear_faults(&dir);
    }
    // liveness after the fault: the worker still rotates, writes are accepted and readable
    let before = d.dir_blob_ids().len();
    d.resync_lifecycle().await;
    for op in [Op::ForceUpdate { pred: true }, Op::Put { k: 0, ts: 9, meta: None, size: 33 }, Op::Del { k: 1, ts: 9, meta: None, only_if: false }] {
        if let Err(m) = d.step(&op).await {
            fail!(format!("post-fault-op-failed/{}/{}", m.sig, label), format!("after the fault cleared, {} failed: {}", op.short(), m.detail));
        }
    }
    if d.dir_blob_ids().len() <= before {
        fail!(format!("no-rotation-after-fault/{}", label), "force_update_active_blob did not create a new blob after the fault cleared".to_string());
    }
    if let Err(m) = d.check(S_ALL_QUERIES).await {
        fail!(format!("{}/post-fault-ops/{}", m.sig, label), m.detail);
    }
    // final clean restart
    if let Err(m) = d.close().await {
        fail!(format!("close-failed-after-fault-cleared/{}", label), m.detail);
    }
    if let Err(m) = d.open(false).await {
        fail!(format!("init-failed-after-fault-cleared/{}", label), format!("final restart: {}", m.detail));
    }
    if let Err((sig, det)) = resync_dir(d, &mut out) {
        fail!(format!("{}/{}", sig, label), det);
    }
    if ignore_mode {
        if let Err((sig, det)) = park_ignored(d, &mut parked, &mut out).await {
            fail!(format!("{}/{}", sig, label), det);
        }
    }
    d.resync_lifecycle().await;
    if out.fired {
        probe_torn_keys(d, &mut out, &failed_appends).await;
    }
    if let Err(m) = d.check(S_ALL_QUERIES).await {
        fail!(format!("{}/after-restart/{}", m.sig, label), format!("after the final restart: {}", m.detail));
    }
    let _ = d.close().await;
    let _ = tap::disarm(&dir);
    out.compared = d.stats.compared;
    out
}

#[allow(dead_code)]
fn r_is_ok_lifecycle(op: &Op) -> bool {
    matches!(op, Op::ForceUpdate { .. } | Op::CloseBg | Op::CreateBg | Op::RestoreBg)
}

/// fault-free run: counts the operations per fault class
async fn count_ops<const N: usize>(d: &mut Driver<N>, ops: &[Op]) -> Result<BTreeMap<&'static str, u64>, Mismatch> {
    let dir = d.dir.clone();
    tap::arm(&dir, false, false);
    let mut counts: BTreeMap<&'static str, u64> = BTreeMap::new();
    let r: Result<(), Mismatch> = async {
        d.open(false).await?;
        let _ = tap::drain(&dir); // operations of the first init are not fault targets
        for op in ops {
            d.step(op).await?;
            if let Some(s) = d.storage.as_ref() {
                s.verif_barrier(true).await;
            }
        }
        d.close().await?;
        Ok(())
    }
    .await;
    let ev = tap::disarm(&dir);
    r?;
    for c in classes() {
        let n = ev.iter().filter(|e| c.kinds.contains(&e.kind) && e.path.to_string_lossy().ends_with(c.suffix)).count() as u64;
        counts.insert(c.label, n);
    }
    Ok(counts)
}

fn eval_history<const N: usize>(ctx: &Ctx, sh: &mut Shard, rng: &mut Rng, cfg: &Cfg, ops: &[Op], hid: u64) {
    let dir = new_dir("c11-");
    let mut d: Driver<N> = Driver::new(dir.clone(), cfg.clone(), hid);
    let counts = match block_on_catch(cfg.mt, count_ops(&mut d, ops)) {
        Ok(Ok(c)) => c,
        Ok(Err(m)) => {
            sh.add("desync_histories", 1);
            if sh.notes.len() < 3 {
                sh.notes.push(format!("fault-free run disagreed with the model ({}): {}", m.class.name(), m.detail));
            }
            rm_dir(&dir);
            return;
        }
        Err(p) => {
            sh.violation(&ctx.known, "C11", ctx.seed, "C11/panic-in-fault-free-run", &p, json!({"check": "c11", "cfg": cfg.to_json(), "history": history_json(ops)}));
            rm_dir(&dir);
            return;
        }
    };
    rm_dir(&dir);
    sh.add("fault_free_runs", 1);
    // (class, n) list
    let mut cases: Vec<(FaultClass, u64)> = Vec::new();
    for c in classes() {
        for n in 0..counts.get(c.label).copied().unwrap_or(0) {
            cases.push((c.clone(), n));
        }
    }
    let budget = if ctx.thorough() { usize::MAX } else { 150 };
    if cases.len() > budget {
        // keep every class represented: shuffle within, then round-robin over classes
        rng.shuffle(&mut cases);
        let mut by: BTreeMap<&'static str, Vec<(FaultClass, u64)>> = BTreeMap::new();
        for c in cases.drain(..) {
            by.entry(c.0.label).or_default().push(c);
        }
        let mut picked = Vec::new();
        while picked.len() < budget {
            let mut any = false;
            for v in by.values_mut() {
                if let Some(c) = v.pop() {
                    picked.push(c);
                    any = true;
                }
            }
            if !any {
                break;
            }
        }
        cases = picked;
    }
    for (c, n) in cases {
        if !ctx.time_left() {
            sh.add("cases_skipped_time_budget", 1);
            continue;
        }
        let action = match c.mode {
            0 => Action::Fail(libc::EIO),
            1 => Action::Fail(libc::ENOSPC),
            3 => Action::Fail(libc::ENOENT),
            4 => Action::Fail(libc::EACCES),
            // always shorter than the smallest record (a deletion marker: header + 8 bytes of empty meta), so the
            // failed append is torn for real; lengths from the record header size up leave the header intact
            _ => Action::Short(rng.range(1, (57 + N + 8 - 1) as u64), libc::ENOSPC),
        };
        let fault = Fault { kinds: c.kinds.clone(), suffix: c.suffix.to_string(), nth: n, sticky: false, action: action.clone() };
        let dir = new_dir("c11-");
        let mut d: Driver<N> = Driver::new(dir.clone(), cfg.clone(), hid);
        let r = block_on_catch(cfg.mt, run_case(&mut d, ops, Some(fault), None, c.label));
        rm_dir(&dir);
        sh.evaluations += 1;
        let replay: Value = json!({"check": "c11", "cfg": cfg.to_json(), "hist_id": hid, "history": history_json(ops), "short": history_short(ops), "fault": {"class": c.label, "nth": n, "action": format!("{:?}", action)}});
        match r {
            Ok(out) => {
                sh.add("queries_compared", out.compared);
                sh.add("blobs_quarantined_at_restart", out.quarantined);
                sh.add("blobs_skipped_at_init_ignore_mode", out.parked);
                sh.add("per_blob_count_vs_file_checks", out.count_checks);
                sh.add("skipped_blobs_served_again_later", out.unparked);
                if out.fired {
                    sh.add(&format!("fired_{}", c.label), 1);
                    sh.add(&format!("outcome: {}", out.outcome), 1);
                    sh.nontrivial.insert(fnv(format!("{}|{}|{}", history_short(ops), c.label, n).as_bytes()));
                    if sh.samples.len() < 2 {
                        sh.sample(json!({"history": history_short(ops), "fault": c.label, "nth": n, "fired_at_step": out.fault_step, "outcome": out.outcome}));
                    }
                } else {
                    sh.add("fault_not_reached", 1);
                }
                sh.add("reads_of_never_acknowledged_key_fail_after_torn_append", out.failed_put_key_err);
                for (sig, detail) in out.side.iter() {
                    sh.violation(&ctx.known, "C11", ctx.seed, &format!("C11/{}", sig), &format!("fault {} #{} (fired at {:?}): {}", c.label, n, out.fault_step, detail), replay.clone());
                }
                if let Some((sig, detail)) = out.violation {
                    sh.violation(&ctx.known, "C11", ctx.seed, &format!("C11/{}", sig), &format!("fault {} #{} (fired at {:?}): {}", c.label, n, out.fault_step, detail), replay);
                }
            }
            Err(p) => {
                let short: String = p.chars().take(90).collect();
                sh.violation(&ctx.known, "C11", ctx.seed, &format!("C11/panic/{}", c.label), &format!("fault {} #{}: panic {}", c.label, n, short), replay);
            }
        }
    }
}

/// a few RLIMIT_FSIZE cases per history
fn eval_rlimit<const N: usize>(ctx: &Ctx, sh: &mut Shard, rng: &mut Rng, cfg: &Cfg, ops: &[Op], hid: u64) {
    let n_cases = if ctx.thorough() { 40 } else { 8 };
    for _ in 0..n_cases {
        if !ctx.time_left() {
            return;
        }
        let step = rng.below(ops.len() as u64) as usize;
        let absolute = rng.chance(1, 3);
        let extra = if absolute { rng.range(0, 6000) } else { rng.range(0, 120) };
        let rl = RlimitFault { step, extra, absolute };
        let label = if absolute { "rlimit-fsize-absolute" } else { "rlimit-fsize-at-blob-end" };
        let dir = new_dir("c11r-");
        let mut d: Driver<N> = Driver::new(dir.clone(), cfg.clone(), hid);
        let r = block_on_catch(cfg.mt, run_case(&mut d, ops, None, Some(rl.clone()), label));
        rm_dir(&dir);
        sh.evaluations += 1;
        let replay: Value = json!({"check": "c11", "cfg": cfg.to_json(), "hist_id": hid, "history": history_json(ops), "short": history_short(ops), "rlimit": {"step": step, "extra": extra, "absolute": absolute}});
        match r {
            Ok(out) => {
                sh.add("queries_compared", out.compared);
                sh.add("blobs_quarantined_at_restart", out.quarantined);
                if out.fired {
                    sh.add(&format!("fired_{}", label), 1);
                    sh.add(&format!("outcome: {}", out.outcome), 1);
                    sh.nontrivial.insert(fnv(format!("{}|{}|{}|{}", history_short(ops), label, step, extra).as_bytes()));
                } else {
                    sh.add("rlimit_not_reached", 1);
                }
                sh.add("reads_of_never_acknowledged_key_fail_after_torn_append", out.failed_put_key_err);
                for (sig, detail) in out.side.iter() {
                    sh.violation(&ctx.known, "C11", ctx.seed, &format!("C11/{}", sig), &format!("RLIMIT_FSIZE lowered during step {} ({} B, fired at {:?}): {}", step, extra, out.fault_step, detail), replay.clone());
                }
                if let Some((sig, detail)) = out.violation {
                    sh.violation(&ctx.known, "C11", ctx.seed, &format!("C11/{}", sig), &format!("RLIMIT_FSIZE lowered during step {} ({}, {} B; fired at {:?}): {}", step, if absolute { "absolute" } else { "active blob end +" }, extra, out.fault_step, detail), replay);
                }
            }
            Err(p) => {
                let short: String = p.chars().take(90).collect();
                sh.violation(&ctx.known, "C11", ctx.seed, &format!("C11/panic/{}", label), &format!("RLIMIT_FSIZE case: panic {}", short), replay);
            }
        }
    }
}

pub fn shard(ctx: &Ctx) -> Shard {
    let mut sh = Shard::default();
    let mut rng = Rng::new(ctx.shard_seed());
    let p = profile();
    let mut n = 0u64;
    while ctx.time_left() {
        let mut cfg = random_cfg(&mut rng, p.n_keys, p.n_meta, Some(true));
        cfg.validate_data = rng.chance(1, 3);
        cfg.ignore_corrupted = rng.chance(1, 4);
        sh.add(if cfg.ignore_corrupted { "histories_ignore_corrupted" } else { "histories_quarantine_mode" }, 1);
        let ops = gen_history(&mut rng, &p);
        let hid = ((ctx.shard as u64) << 20) | n;
        match cfg.keylen {
            4 => eval_rlimit::<4>(ctx, &mut sh, &mut rng, &cfg, &ops, hid),
            32 => eval_rlimit::<32>(ctx, &mut sh, &mut rng, &cfg, &ops, hid),
            _ => eval_rlimit::<8>(ctx, &mut sh, &mut rng, &cfg, &ops, hid),
        }
        match cfg.keylen {
            4 => eval_history::<4>(ctx, &mut sh, &mut rng, &cfg, &ops, hid),
            32 => eval_history::<32>(ctx, &mut sh, &mut rng, &cfg, &ops, hid),
            _ => eval_history::<8>(ctx, &mut sh, &mut rng, &cfg, &ops, hid),
        }
        n += 1;
    }
    sh.add("histories", n);
    sh
}

/// `pv replay` of a C11 witness (failpoint or RLIMIT_FSIZE case); PV_KEEP_DIR=<path> copies the work dir there
pub fn replay(r: &Value) -> i32 {
    let cfg = match Cfg::from_json(&r["cfg"]) {
        Some(c) => c,
        None => return 2,
    };
    let ops = match crate::ops::history_from_json(&r["history"]) {
        Some(o) => o,
        None => return 2,
    };
    let hid = r["hist_id"].as_u64().unwrap_or(0);
    let rl = r.get("rlimit").filter(|x| x.is_object()).map(|x| RlimitFault { step: x["step"].as_u64().unwrap_or(0) as usize, extra: x["extra"].as_u64().unwrap_or(0), absolute: x["absolute"].as_bool().unwrap_or(false) });
    let fault = r.get("fault").filter(|x| x.is_object()).and_then(|x| {
        let label = x["class"].as_str()?;
        let c = classes().into_iter().find(|c| c.label == label)?;
        let a = x["action"].as_str().unwrap_or("");
        let action = if a.starts_with("Short(") {
            let n: u64 = a.trim_start_matches("Short(").split(',').next().and_then(|v| v.trim().parse().ok()).unwrap_or(10);
            Action::Short(n, libc::ENOSPC)
        } else {
            Action::Fail(a.trim_start_matches("Fail(").trim_end_matches(')').parse().unwrap_or(libc::EIO))
        };
        Some((Fault { kinds: c.kinds.clone(), suffix: c.suffix.to_string(), nth: x["nth"].as_u64().unwrap_or(0), sticky: false, action }, c.label))
    });
    fn go<const N: usize>(cfg: &Cfg, ops: &[Op], hid: u64, fault: Option<(Fault, &'static str)>, rl: Option<RlimitFault>) -> i32 {
        let dir = new_dir("c11-replay-");
        let mut d: Driver<N> = Driver::new(dir.clone(), cfg.clone(), hid);
        let label = fault.as_ref().map(|f| f.1).unwrap_or("rlimit");
        let r = block_on_catch(cfg.mt, run_case(&mut d, ops, fault.map(|f| f.0), rl, label));
        if let Ok(keep) = std::env::var("PV_KEEP_DIR") {
            let _ = std::process::Command::new("cp").arg("-r").arg(&dir).arg(&keep).status();
            println!("work dir copied to {}", keep);
        }
        rm_dir(&dir);
        match r {
            Ok(out) => {
                println!("fired={} at {:?}; outcome: {}", out.fired, out.fault_step, out.outcome);
                for (sig, detail) in out.side.iter() {
                    println!("FINDING {}: {}", sig, detail);
                }
                match out.violation {
                    Some((sig, detail)) => {
                        println!("MISMATCH {}: {}", sig, detail);
                        1
                    }
                    None => {
                        println!("case ran to completion without a mismatch ({} queries compared)", out.compared);
                        0
                    }
                }
            }
            Err(p) => {
                println!("PANIC {}", p);
                1
            }
        }
    }
    match cfg.keylen {
        4 => go::<4>(&cfg, &ops, hid, fault, rl),
        32 => go::<32>(&cfg, &ops, hid, fault, rl),
        _ => go::<8>(&cfg, &ops, hid, fault, rl),
    }
}
