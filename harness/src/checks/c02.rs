//! C02 - version history, metadata lookup, deletion and duplicate-write semantics.

use super::modelchk::{no_tweak, Spec};
use crate::drive::{Class, S_LISTS, S_READ_WITH, S_RECCOUNT};
use crate::evidence::{Meta, Shard};
use crate::ops::Profile;
use crate::runner::{Ctx, Plan};

pub fn plan() -> Plan {
    Plan {
        meta: Meta {
            property: "C02",
            level: "exploration",
            rule: "model differential: after EVERY step, for every key (+2 absent keys): read_all, read_all_with_deletion_marker (entries compared by timestamp, deleted flag, bytes via load_data, meta via load_meta), read_with for each meta of the alphabet {empty, A, B}; the return value of every delete/delete_with (blobs marked) and, for the duplicate policy, records_count (whether a write physically stored something). Random histories over 3 keys, timestamps 0..5, metas, both only_if_presented values, bursts, rotations, restore, dumps, restarts; both duplicate policies; plus all fixed-length histories over a 6-symbol alphabet. A quarter of the random histories rotate automatically (record limit 1-4 or size limit 100-900 bytes with a 0 ms rotation debounce; every rotation the worker performs is mirrored into the model, a rotation below the limit is a mismatch); one in eight starts with 9-14 small blobs (two-digit blob ids, several filter levels); one in twelve starts with a fat blob of 70-140 records (multi-leaf on-disk index). Non-trivial = some key has a deletion marker and records in >=2 blobs; distinct = hash of (history, configuration).",
            assumptions: vec!["rotation through the lifecycle API / worker barrier", "verdict holds for the executions produced by this seed only"],
        },
        shards: 16,
        soft_s: (24, 420),
        exhaustive: None,
        min_evaluations: 200,
        extra: None,
    }
}

pub fn spec() -> Spec {
    Spec {
        property: "C02",
        check_name: "c02",
        profile: Profile::c02(),
        surface: S_LISTS | S_READ_WITH | S_RECCOUNT,
        owned: vec![Class::Lists, Class::ReadWith, Class::DelCount, Class::DupPolicy],
        nontrivial_rule: 2,
        dup: None,
        enumerate_len: (5, 6),
        max_random: (100_000, 10_000_000),
        tweak_cfg: no_tweak,
    }
}

pub fn shard(ctx: &Ctx) -> Shard {
    super::modelchk::shard(ctx, &spec())
}
