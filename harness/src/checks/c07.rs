//! C07 - no harm: stored blob bytes are never modified, truncated or deleted.

use super::common::random_cfg;
use crate::drive::Loose;
use crate::evidence::{Meta, Shard};
use crate::ops::{gen_history, history_json, history_short, Op, Profile};
use crate::parse;
use crate::rng::{fnv, Rng};
use crate::runner::{block_on_catch, new_dir, rm_dir, Ctx, Plan};
use crate::tap::Trace;
use pearl::verif::tap;
use pearl::verif::tap::{Action, Fault, Kind};
use serde_json::json;
use std::collections::BTreeMap;
use std::path::{Path, PathBuf};

pub fn plan() -> Plan {
    Plan {
        meta: Meta {
            property: "C07",
            level: "exploration",
            rule: "four monitors on histories that mix data operations, every lifecycle/maintenance call, restarts with external damage (index removal, blob truncated mid-record / in its header, flipped record-header byte, zero-length blob, foreign garbage blob file => quarantines) and injected I/O failures (failed/short blob write, failed sync, failed create), a quarter of them with ignore_corrupted (damaged blobs stay in place, their ids stay taken): (1) byte snapshots of every *.blob in the work dir and in corrupted/ after every step: the previous content must be a prefix of the current one, a file that left the work dir must sit byte-identical in corrupted/, quarantined files never change or vanish; (2) I/O tap: every write to a blob lands at or beyond the previous end of stored bytes, no positional rewrite / truncate / remove of a blob, a blob is renamed only into corrupted/ and never over an existing file, no create() of a blob that already holds bytes; (3) every created blob uses an id never carried by a file in the directory (incl. quarantined); (2b) the same write-offset rule on a concurrent scenario (6-24 writer tasks with 40 B..300 KB values on one fresh or reopened blob, one write delayed by a failpoint); (4) with the worker quiescent, the tap window of a full query pass (read, contains, read_all*, read_with, filters, counters) contains no write/create/truncate/rename/remove. Non-trivial = history with a quarantine, an injected fault or >=2 blobs; distinct = hash(history, damage plan).",
            assumptions: vec!["snapshots are taken after a worker barrier (no in-flight I/O)", "thorough tier adds a hook-independent strace view of the same rules (tools/strace_c07.py)", "verdict holds for the histories generated for this seed"],
        },
        shards: 16,
        soft_s: (25, 420),
        exhaustive: None,
        min_evaluations: 200,
        extra: Some(strace_extra),
    }
}

/// monitor 5: the same kind of workload without any hook, under strace; tools/strace_c07.py checks the rules on syscalls
fn strace_extra(tier: &str, seed: u64, sh: &mut Shard) {
    let n = if tier == "thorough" { 400 } else { 40 };
    let dir = new_dir("c07st-");
    let out = dir.join("strace.out");
    let work = dir.join("w");
    let _ = std::fs::create_dir_all(&work);
    let exe = std::env::current_exe().unwrap();
    let st = std::process::Command::new("strace")
        .args(["-f", "-y", "-s", "0", "-e", "trace=openat,pwrite64,write,ftruncate,truncate,unlink,unlinkat,rename,renameat,renameat2", "-o"])
        .arg(&out)
        .arg(&exe)
        .arg("c07strace")
        .arg(&work)
        .arg(seed.to_string())
        .arg(n.to_string())
        .stdout(std::process::Stdio::null())
        .stderr(std::process::Stdio::null())
        .status();
    match st {
        Ok(s) if s.success() => {
            let script = crate::evidence::verif_root().join("tools").join("strace_c07.py");
            let o = std::process::Command::new("python3").arg(&script).arg(&out).arg(&work).output();
            match o.ok().and_then(|o| serde_json::from_slice::<serde_json::Value>(&o.stdout).ok()) {
                Some(v) => {
                    sh.add("strace_syscalls_seen", v["syscalls"].as_u64().unwrap_or(0));
                    sh.add("strace_blob_writes_checked", v["blob_writes"].as_u64().unwrap_or(0));
                    sh.add("strace_blob_renames_checked", v["renames"].as_u64().unwrap_or(0));
                    sh.add("strace_histories", n);
                    if let Some(a) = v["violations"].as_array() {
                        for x in a.iter().take(3) {
                            let rule = x["rule"].as_str().unwrap_or("?");
                            let keep = crate::evidence::verif_root().join("replays").join(format!("C07-strace-{}.out", seed));
                            let _ = std::fs::create_dir_all(keep.parent().unwrap());
                            let _ = std::fs::copy(&out, &keep);
                            sh.violations.push(crate::evidence::Violation { sig: format!("C07/strace/{}", rule), detail: format!("{}: {}", rule, x["line"].as_str().unwrap_or("")), replay: keep.to_string_lossy().to_string() });
                        }
                    }
                }
                None => sh.notes.push("strace checker produced no result".into()),
            }
        }
        Ok(s) => sh.notes.push(format!("strace workload exited with {:?} (monitor 5 skipped)", s.code())),
        Err(e) => sh.notes.push(format!("strace not available: {} (monitor 5 skipped)", e)),
    }
    rm_dir(&dir);
}

/// `pv c07strace <dir> <seed> <n>`: hook-free workload for the strace view; the harness' own file
/// manipulations are bracketed by marker writes to /dev/null (7 bytes = begin, 9 bytes = end)
pub fn strace_main(args: &[String]) -> i32 {
    use std::io::Write;
    let root = PathBuf::from(&args[0]);
    let seed: u64 = args[1].parse().unwrap_or(1);
    let n: u64 = args[2].parse().unwrap_or(10);
    let mut null = std::fs::OpenOptions::new().write(true).open("/dev/null").expect("/dev/null");
    let mut rng = Rng::new(seed ^ 0x57ACE);
    let p = profile();
    for i in 0..n {
        let dir = root.join(format!("h{}", i));
        let _ = std::fs::create_dir_all(&dir);
        let mut cfg = random_cfg(&mut rng, p.n_keys, p.n_meta, Some(true));
        cfg.keylen = 8;
        cfg.mt = true;
        let ops = gen_history(&mut rng, &p);
        let mut l: Loose<8> = Loose::new(dir.clone(), cfg.clone());
        let rt = crate::runner::runtime(true);
        let mut garbage = 0u64;
        rt.block_on(async {
            if l.open(false).await.is_err() {
                return;
            }
            for op in ops.iter() {
                if let Op::Restart { lazy, .. } = op {
                    let _ = l.close().await;
                    // harness damage, bracketed
                    let _ = null.write(b"PVH+beg");
                    let blobs: Vec<PathBuf> = crate::drive::dir_ids(&dir).into_iter().map(|id| dir.join(format!("t.{}.blob", id))).collect();
                    if !blobs.is_empty() {
                        let victim = rng.pick(&blobs).clone();
                        match rng.below(6) {
                            0 | 1 => {
                                if let Ok(b) = std::fs::read(&victim) {
                                    if b.len() > 40 {
                                        let cut = b.len() - 1 - rng.below(15) as usize;
                                        let _ = std::fs::write(&victim, &b[..cut]);
                                        let _ = std::fs::remove_file(victim.with_extension("index"));
                                    }
                                }
                            }
                            2 => {
                                // a foreign file under an id no blob ever had: after its quarantine pearl continues
                                // numbering above it, so consecutive garbage ids are spaced far apart
                                garbage += 1;
                                let id = 1000 * garbage;
                                let p = dir.join(format!("t.{}.blob", id));
                                if !p.exists() && !dir.join("corrupted").join(format!("t.{}.blob", id)).exists() {
                                    let _ = std::fs::write(p, rng.bytes_range(1, 100));
                                }
                            }
                            _ => {}
                        }
                    }
                    let _ = null.write(b"PVH-end!!");
                    if l.open(*lazy).await.is_err() {
                        return;
                    }
                } else {
                    let _ = l.exec(op).await;
                }
            }
            l.barrier().await;
            l.query_all(5).await;
            let _ = l.close().await;
        });
        drop(rt);
    }
    0
}

fn profile() -> Profile {
    Profile {
        n_keys: 4, ts_max: 5, n_meta: 1, len_min: 10, len_max: 34,
        w_put: 34, w_put_meta: 4, w_del: 12, w_del_meta: 1, w_burst: 1, w_rotate: 8,
        w_close: 4, w_create: 3, w_restore: 4, w_bg: 4, w_force: 4, w_dump: 5, w_dump_nowait: 2,
        w_offload: 2, w_fsync: 2, w_restart: 12, restart_rm_idx: true, big_values: false,
    }
}

type Snap = BTreeMap<PathBuf, Vec<u8>>;

fn snapshot(dir: &Path, cname: &str) -> (Snap, Snap) {
    let mut work = Snap::new();
    let mut corr = Snap::new();
    let read = |d: &Path, out: &mut Snap| {
        if let Ok(rd) = std::fs::read_dir(d) {
            for e in rd.flatten() {
                let p = e.path();
                if p.is_file() && p.extension().and_then(|x| x.to_str()) == Some("blob") {
                    out.insert(p.clone(), std::fs::read(&p).unwrap_or_default());
                }
            }
        }
    };
    read(dir, &mut work);
    read(&dir.join(cname), &mut corr);
    (work, corr)
}

fn compare(prev: &(Snap, Snap), cur: &(Snap, Snap), dir: &Path, cname: &str) -> Option<(String, String)> {
    for (p, old) in prev.0.iter() {
        match cur.0.get(p) {
            Some(new) => {
                if new.len() < old.len() {
                    return Some(("snapshot/blob-shrunk".into(), format!("{} shrank from {} to {} bytes", p.display(), old.len(), new.len())));
                }
                if &new[..old.len()] != old.as_slice() {
                    let at = old.iter().zip(new.iter()).position(|(a, b)| a != b).unwrap_or(0);
                    return Some(("snapshot/stored-bytes-modified".into(), format!("{}: byte {} of the previously stored {} bytes changed", p.display(), at, old.len())));
                }
            }
            None => {
                let q = dir.join(cname).join(p.file_name().unwrap());
                match cur.1.get(&q) {
                    Some(moved) if moved == old => {}
                    Some(moved) if moved.len() >= old.len() && &moved[..old.len()] == old.as_slice() => {}
                    Some(_) => return Some(("snapshot/quarantined-copy-differs".into(), format!("{} left the work dir but the file in corrupted/ differs from its last content", p.display()))),
                    None => return Some(("snapshot/blob-vanished".into(), format!("{} ({} bytes) vanished from the work dir and is not in corrupted/", p.display(), old.len()))),
                }
            }
        }
    }
    for (p, old) in prev.1.iter() {
        match cur.1.get(p) {
            Some(new) if new == old => {}
            Some(_) => return Some(("snapshot/quarantined-file-changed".into(), format!("quarantined file {} changed", p.display()))),
            None => return Some(("snapshot/quarantined-file-vanished".into(), format!("quarantined file {} vanished", p.display()))),
        }
    }
    None
}

#[derive(Clone, Debug)]
enum Damage {
    None,
    TruncMidRecord,
    TruncInHeader,
    FlipRecordHeader,
    ZeroLength,
    Garbage,
}

struct Out {
    violation: Option<(String, String)>,
    quarantines: u64,
    faults_fired: u64,
    snapshots: u64,
    query_windows: u64,
    events: u64,
    blob_creations: u64,
    max_blobs: u64,
    init_failed: u64,
    plan: String,
}

async fn run(l: &mut Loose<8>, ops: &[Op], rng: &mut Rng) -> Out {
    let mut out = Out { violation: None, quarantines: 0, faults_fired: 0, snapshots: 0, query_windows: 0, events: 0, blob_creations: 0, max_blobs: 0, init_failed: 0, plan: String::new() };
    let dir = l.dir.clone();
    let cname = l.cfg.corrupted_name().to_string();
    let mut trace = Trace::new(false, true);
    trace.corrupted_dir = Some(dir.join(&cname));
    tap::arm(&dir, false, false);
    if let Err(e) = l.open(false).await {
        out.violation = Some(("init-failed-on-empty-dir".into(), e));
        let _ = tap::disarm(&dir);
        return out;
    }
    let mut prev = snapshot(&dir, &cname);
    let mut garbage_n = 0u64;
    let fault_step = if rng.chance(1, 2) { Some(rng.below(ops.len() as u64) as usize) } else { None };
    for (i, op) in ops.iter().enumerate() {
        // external damage happens between close and reopen of a Restart
        if let Op::Restart { lazy, rm_idx } = op {
            if l.close().await.is_err() {
                // close failing is C11's concern; continue with the directory as it is
            }
            let ev = tap::drain(&dir);
            trace.feed(&ev);
            let cur = snapshot(&dir, &cname);
            out.snapshots += 1;
            if let Some(v) = compare(&prev, &cur, &dir, &cname) {
                out.violation = Some(v);
                break;
            }
            prev = cur;
            // damage
            let blobs: Vec<PathBuf> = prev.0.keys().cloned().collect();
            let dmg = match rng.below(9) {
                0 | 1 => Damage::TruncMidRecord,
                2 => Damage::TruncInHeader,
                3 => Damage::FlipRecordHeader,
                4 => Damage::ZeroLength,
                5 => Damage::Garbage,
                _ => Damage::None,
            };
            if !blobs.is_empty() {
                let victim = rng.pick(&blobs).clone();
                let bytes = prev.0[&victim].clone();
                let bp = parse::parse_blob(&bytes);
                let mut new: Option<Vec<u8>> = None;
                match dmg {
                    Damage::TruncMidRecord => {
                        if let Some(r) = bp.records.last().filter(|r| r.header_len > 2) {
                            let cut = r.pos + 1 + rng.below(r.header_len - 1);
                            new = Some(bytes[..cut as usize].to_vec());
                        }
                    }
                    Damage::TruncInHeader => {
                        if bytes.len() >= 20 {
                            new = Some(bytes[..rng.range(1, 19) as usize].to_vec())
                        }
                    }
                    Damage::FlipRecordHeader => {
                        if let Some(r) = bp.records.first().filter(|r| r.header_len > 21) {
                            let mut b = bytes.clone();
                            let at = (r.pos + 16 + rng.below(r.header_len - 20)) as usize;
                            b[at] ^= 0x40;
                            new = Some(b);
                        }
                    }
                    Damage::ZeroLength => new = Some(Vec::new()),
                    _ => {}
                }
                if let Some(nb) = new {
                    let _ = std::fs::write(&victim, &nb);
                    let _ = std::fs::remove_file(victim.with_extension("index"));
                    out.plan.push_str(&format!("[{}:{:?}@{}]", i, dmg, victim.file_name().unwrap().to_string_lossy()));
                }
            }
            if matches!(dmg, Damage::Garbage) {
                // a foreign file with an id that neither the work dir nor corrupted/ has ever seen
                garbage_n += 1;
                let id = 50 + garbage_n;
                let p = dir.join(format!("t.{}.blob", id));
                if !p.exists() && !dir.join(&cname).join(format!("t.{}.blob", id)).exists() {
                    let _ = std::fs::write(&p, rng.bytes_range(1, 200));
                    out.plan.push_str(&format!("[{}:garbage t.{}.blob]", i, id));
                }
            }
            if *rm_idx != 0 {
                for b in blobs.iter() {
                    if let Some(id) = crate::tap::blob_id_of(b) {
                        if (rm_idx >> (id % 64)) & 1 == 1 {
                            let _ = std::fs::remove_file(b.with_extension("index"));
                        }
                    }
                }
            }
            // the harness changed files itself: new baseline; the tap trace learns about the new content
            prev = snapshot(&dir, &cname);
            for (p, c) in prev.0.iter() {
                if let Some(f) = trace.files.get_mut(p) {
                    f.len = c.len() as u64;
                } else {
                    trace.seed_file(p, c.clone());
                }
            }
            let before_q = prev.1.len();
            if let Err(e) = l.open(*lazy).await {
                // an init error on a damaged directory is not C07's concern (C06); stop this history here
                out.init_failed += 1;
                let _ = e;
                break;
            }
            let cur = snapshot(&dir, &cname);
            out.quarantines += (cur.1.len().saturating_sub(before_q)) as u64;
        } else {
            if fault_step == Some(i) {
                let f = match rng.below(5) {
                    0 => Fault { kinds: vec![Kind::Write], suffix: ".blob".into(), nth: 0, sticky: false, action: Action::Fail(libc::EIO) },
                    1 => Fault { kinds: vec![Kind::Write], suffix: ".blob".into(), nth: 0, sticky: false, action: Action::Short(rng.range(1, 30), libc::ENOSPC) },
                    2 => Fault { kinds: vec![Kind::Sync], suffix: ".blob".into(), nth: 0, sticky: false, action: Action::Fail(libc::EIO) },
                    3 => Fault { kinds: vec![Kind::Create], suffix: ".blob".into(), nth: 0, sticky: false, action: Action::Fail(libc::ENOSPC) },
                    _ => Fault { kinds: vec![Kind::Write, Kind::WriteAt, Kind::Create], suffix: ".index".into(), nth: 0, sticky: false, action: Action::Fail(libc::ENOSPC) },
                };
                out.plan.push_str(&format!("[{}:fault {:?} {:?}]", i, f.kinds, f.action));
                tap::set_faults(&dir, vec![f]);
            }
            let _ = l.exec(op).await;
            l.barrier().await;
            if fault_step == Some(i) {
                let fired = tap::clear_faults(&dir);
                out.faults_fired += fired.iter().map(|f| f.len() as u64).sum::<u64>();
            }
        }
        l.barrier().await;
        let ev = tap::drain(&dir);
        trace.feed(&ev);
        if let Some(v) = trace.violations.first() {
            out.violation = Some((format!("tap/{}", v.rule.trim_start_matches("c07/")), format!("step {} ({}): {}", i, op.short(), v.detail)));
            break;
        }
        let cur = snapshot(&dir, &cname);
        out.snapshots += 1;
        out.max_blobs = out.max_blobs.max((cur.0.len() + cur.1.len()) as u64);
        if let Some((sig, d)) = compare(&prev, &cur, &dir, &cname) {
            out.violation = Some((sig, format!("step {} ({}): {}", i, op.short(), d)));
            break;
        }
        prev = cur;
        // (4) read-only queries
        if i % 3 == 0 && l.storage.is_some() {
            l.query_all(5).await;
            out.query_windows += 1;
            let ev = tap::drain(&dir);
            if let Some(e) = ev.iter().find(|e| matches!(e.kind, Kind::Write | Kind::WriteAt | Kind::Create | Kind::Truncate | Kind::Rename | Kind::Remove)) {
                out.violation = Some((format!("query-wrote/{:?}", e.kind), format!("a query pass after step {} performed {:?} on {}", i, e.kind, e.path.display())));
                break;
            }
            trace.feed(&ev);
        }
    }
    let _ = l.close().await;
    let ev = tap::disarm(&dir);
    trace.feed(&ev);
    if out.violation.is_none() {
        if let Some(v) = trace.violations.first() {
            out.violation = Some((format!("tap/{}", v.rule.trim_start_matches("c07/")), format!("at close: {}", v.detail)));
        } else if let Some(v) = compare(&prev, &snapshot(&dir, &cname), &dir, &cname) {
            out.violation = Some(v);
        }
    }
    out.events = trace.events_seen;
    out.blob_creations = trace.blob_creations;
    out
}

/// Concurrent writers (mixed sizes: in-place and background I/O paths) on one blob, one write delayed by a
/// failpoint: the tap must never show a write that lands below the end of the bytes already stored in the file.
async fn concurrent_scenario(dir: PathBuf, cfg: crate::drive::Cfg, seed: u64) -> Result<(u64, u64), (String, String)> {
    use bytes::Bytes;
    use pearl::{ArrayKey, BlobRecordTimestamp, Storage};
    let mut rng = Rng::new(seed);
    let mut s: Storage<ArrayKey<8>> = crate::drive::builder_for(&cfg, &dir).build().map_err(|e| ("build".to_string(), format!("{:#}", e)))?;
    s.init().await.map_err(|e| ("init-failed-on-empty-dir".to_string(), format!("{:#}", e)))?;
    if rng.chance(1, 2) {
        let _ = s.write(ArrayKey::<8>::from(crate::drive::key_bytes(1, 9999, 8)), Bytes::from(vec![1u8; 40]), BlobRecordTimestamp::new(1)).await;
        s.close().await.map_err(|e| ("close".to_string(), format!("{:#}", e)))?;
        s = crate::drive::builder_for(&cfg, &dir).build().map_err(|e| ("build".to_string(), format!("{:#}", e)))?;
        s.init().await.map_err(|e| ("init".to_string(), format!("{:#}", e)))?;
    }
    let mut trace = Trace::new(false, true);
    trace.corrupted_dir = Some(dir.join(cfg.corrupted_name()));
    trace.seed_dir(&dir);
    tap::arm(&dir, false, false);
    tap::set_faults(&dir, vec![Fault { kinds: vec![Kind::Write], suffix: ".blob".into(), nth: rng.range(0, 20), sticky: false, action: Action::Delay(rng.range(5, 60)) }]);
    let s = std::sync::Arc::new(s);
    let tasks = rng.range(6, 24);
    let mut hs = Vec::new();
    for t in 0..tasks {
        let s = s.clone();
        let mut r = Rng::new(crate::rng::mix(seed, t));
        hs.push(tokio::spawn(async move {
            for i in 0..r.range(3, 8) {
                let size = *r.pick(&[40usize, 60, 5000, 100_000, 300_000]);
                let key = ArrayKey::<8>::from(crate::drive::key_bytes(7, (t * 100 + i) as u16, 8));
                let _ = s.write(&key, Bytes::from(crate::drive::value_bytes(t * 1000 + i + 1, size as u32)), BlobRecordTimestamp::new(i)).await;
                if r.chance(1, 4) {
                    tokio::task::yield_now().await;
                }
            }
        }));
    }
    for h in hs {
        let _ = h.await;
    }
    s.verif_barrier(true).await;
    let ev = tap::disarm(&dir);
    trace.feed(&ev);
    let writes = trace.writes_seen;
    let s = std::sync::Arc::try_unwrap(s).map_err(|_| ("harness".to_string(), "storage still shared".to_string()))?;
    s.close().await.map_err(|e| ("close".to_string(), format!("{:#}", e)))?;
    if let Some(v) = trace.violations.first() {
        return Err((format!("concurrent/tap/{}", v.rule.trim_start_matches("c07/")), v.detail.clone()));
    }
    Ok((writes, tasks))
}

pub fn shard(ctx: &Ctx) -> Shard {
    let mut sh = Shard::default();
    let mut rng = Rng::new(ctx.shard_seed());
    let p = profile();
    let mut n = 0u64;
    while ctx.time_left() {
        if n % 12 == 11 {
            let mut cfg = random_cfg(&mut rng, 4, 0, Some(true));
            cfg.keylen = 8;
            let seed = rng.next();
            let dir = new_dir("c07c-");
            let r = block_on_catch(cfg.mt, concurrent_scenario(dir.clone(), cfg.clone(), seed));
            rm_dir(&dir);
            n += 1;
            sh.evaluations += 1;
            sh.add("concurrent_scenarios", 1);
            sh.nontrivial.insert(seed);
            let replay = json!({"check": "c07-concurrent", "cfg": cfg.to_json(), "seed": seed});
            match r {
                Ok(Ok((w, t))) => {
                    sh.add("concurrent_blob_writes_checked", w);
                    sh.add("concurrent_writer_tasks", t);
                }
                Ok(Err((sig, d))) => sh.violation(&ctx.known, "C07", ctx.seed, &format!("C07/{}", sig), &d, replay),
                Err(p) => sh.violation(&ctx.known, "C07", ctx.seed, "C07/concurrent/panic", &p, replay),
            }
            continue;
        }
        let mut cfg = random_cfg(&mut rng, p.n_keys, p.n_meta, Some(true));
        cfg.keylen = 8;
        cfg.validate_data = rng.chance(1, 2);
        // a quarter of the histories: damaged blobs are left in place (ignore_corrupted) instead of being moved
        // to corrupted/; their ids stay taken and their bytes stay untouched all the same
        cfg.ignore_corrupted = rng.chance(1, 4);
        // a third of the histories give the quarantine directory another name (Builder::corrupted_dir_name)
        if rng.chance(1, 3) {
            cfg.corrupted_dir = Some((*rng.pick(&["quarantine", "bad.blobs", "c"])).to_string());
        }
        let ops = gen_history(&mut rng, &p);
        let case_seed = rng.next();
        let dir = new_dir("c07-");
        let mut l: Loose<8> = Loose::new(dir.clone(), cfg.clone());
        let mut crng = Rng::new(case_seed);
        let r = block_on_catch(cfg.mt, run(&mut l, &ops, &mut crng));
        rm_dir(&dir);
        n += 1;
        sh.evaluations += 1;
        let replay = json!({"check": "c07", "cfg": cfg.to_json(), "case_seed": case_seed, "history": history_json(&ops), "short": history_short(&ops)});
        match r {
            Ok(out) => {
                sh.add("snapshots_compared", out.snapshots);
                sh.add("tap_events", out.events);
                sh.add("blob_creations_checked", out.blob_creations);
                sh.add("quarantines", out.quarantines);
                sh.add("faults_fired", out.faults_fired);
                sh.add("query_windows_checked", out.query_windows);
                sh.add("init_failed_after_damage", out.init_failed);
                sh.add(if cfg.ignore_corrupted { "histories_ignore_corrupted" } else { "histories_quarantine_mode" }, 1);
                if cfg.corrupted_dir.is_some() {
                    sh.add("histories_custom_quarantine_dir_name", 1);
                }
                sh.max("max_blob_files", out.max_blobs);
                if out.quarantines > 0 || out.faults_fired > 0 || out.max_blobs >= 2 {
                    sh.nontrivial.insert(fnv(format!("{}|{}", history_short(&ops), out.plan).as_bytes()));
                }
                if sh.samples.is_empty() && out.quarantines > 0 {
                    sh.sample(json!({"history": history_short(&ops), "damage_and_faults": out.plan, "quarantines": out.quarantines, "snapshots": out.snapshots}));
                }
                if let Some((sig, detail)) = out.violation {
                    let mut r2 = replay.clone();
                    r2["plan"] = json!(out.plan);
                    sh.violation(&ctx.known, "C07", ctx.seed, &format!("C07/{}", sig), &detail, r2);
                }
            }
            Err(p) => sh.violation(&ctx.known, "C07", ctx.seed, "C07/panic", &p, replay),
        }
    }
    sh.add("histories", n);
    sh
}
