//! C13 - background maintenance stays alive: rotation continues and close terminates.

use super::common::random_cfg;
use crate::drive::Loose;
use crate::evidence::{Meta, Shard};
use crate::ops::{gen_history, history_json, history_short, Op, Profile};
use crate::rng::{fnv, Rng};
use crate::runner::{block_on_catch, new_dir, rm_dir, Ctx, Plan};
use pearl::BlobRecordTimestamp;
use serde_json::json;
use std::time::{Duration, Instant};

pub fn plan() -> Plan {
    Plan {
        meta: Meta {
            property: "C13",
            level: "exploration",
            rule: "bounded-liveness probe after random call sequences: a history over the whole public API (data operations, try_* lifecycle calls, create/close/restore_active_blob_in_background in states where they do and do not apply, force_update_active_blob with predicates true / false / records>2, free_excess_resources, offload, fsync, restarts) runs on a storage with a record limit of 5 per blob; then the probe: (i) Storage::verif_worker_alive() - the worker task has not finished (timing-free); (ii) the active blob is filled beyond its record limit, the 200 ms rotation debounce is waited out once, at most 3 more records are written, each followed by a worker barrier: next_blob_id must have advanced and the previous blob must be closed; (iii) after barriers every non-empty closed blob has a current index file (written bit set, recorded blob size == size of the blob file): first without flushing deferred dumps (the worker's own timers must fire, bounded by 3 s of polling = 1000x the configured deferred maximum), plus a dedicated scenario in which try_close_active_blob requests a dump while the previous dump task is still running (its index write delayed 20-60 ms through an H1 failpoint): the request must still be served, and a variant in which one delete appends a marker to 3-5 dumped closed blobs while every index write takes 110-260 ms, so that the dump pass outlasts pearl's 200 ms time slice and must be continued without skipping a blob; the overflow probe exceeds a 5-record limit or a 500-byte size limit; a scenario issues two deletes into a closed, dumped blob 2-60 ms apart under 30/90 ms deferred-dump times (optionally followed by an unrelated background request) and then only waits: the index file must become current through the worker's own timers; a scenario keeps the worker busy inside a predicate while more than a channel's worth (1100) of other requests is queued and the limit-reaching write is issued, then lets go: the blob must still be replaced without a further write; a scenario steps the wall clock back (5 s, 1 h, 400 days; injected process-locally into CLOCK_REALTIME) after the active blob was created and requires rotation to go on; a third of the histories run with a dirty-byte limit of 0..1000 and blob syncs slowed by 2-9 ms, and every history runs under a timing-free hang monitor (pending + no file operation started, finished or in flight during >=100 consecutive samples over 15 s = deadlock); (iv) close() returns: while it is pending the I/O tap's in-flight counter and event count are sampled every 50 ms; 'pending, nothing in flight and no file operation during >=100 samples over 8 s' is reported as a hang, a watchdog firing while I/O still happens is inconclusive. Non-trivial = history containing a background request that did not apply in its state, or a deferred dump; distinct = hash(history).",
            assumptions: vec!["liveness is restated as bounded progress: N further operations + worker barriers; the only real-time waits are pearl's own 200 ms debounce and the deferred-dump timers", "verdict holds for the histories generated for this seed"],
        },
        shards: 16,
        soft_s: (26, 420),
        exhaustive: None,
        min_evaluations: 100,
        extra: None,
    }
}

fn profile() -> Profile {
    Profile {
        n_keys: 4, ts_max: 5, n_meta: 1, len_min: 4, len_max: 26,
        w_put: 22, w_put_meta: 3, w_del: 10, w_del_meta: 1, w_burst: 1, w_rotate: 3,
        w_close: 7, w_create: 6, w_restore: 7, w_bg: 24, w_force: 10, w_dump: 5, w_dump_nowait: 4,
        w_offload: 2, w_fsync: 2, w_restart: 4, restart_rm_idx: false, big_values: false,
    }
}

struct Out {
    violation: Option<(String, String)>,
    inconclusive: Option<String>,
    bg_inapplicable: u64,
    rotations: u64,
    index_files_checked: u64,
    polls: u64,
}

fn closed_blobs_without_index(dir: &std::path::Path, active_guess: Option<usize>) -> (Vec<usize>, u64) {
    let mut missing = Vec::new();
    let mut checked = 0;
    if let Ok(rd) = std::fs::read_dir(dir) {
        for e in rd.flatten() {
            let p = e.path();
            if p.extension().and_then(|x| x.to_str()) != Some("blob") {
                continue;
            }
            let id = match crate::tap::blob_id_of(&p) {
                Some(i) => i,
                None => continue,
            };
            if Some(id) == active_guess {
                continue;
            }
            let len = e.metadata().map(|m| m.len()).unwrap_or(0);
            if len <= 20 {
                continue; // empty blob: no index file is written for it
            }
            checked += 1;
            // the index file must exist AND describe the blob as it is now (a delete into a closed blob
            // appends a marker; the stale file stays on disk until the deferred re-dump happens)
            let ip = p.with_extension("index");
            let current = match std::fs::read(&ip) {
                Ok(b) if b.len() >= 83 => {
                    let h = crate::parse::parse_index(&b);
                    h.written() && h.blob_size == len
                }
                _ => false,
            };
            if !current {
                missing.push(id);
            }
        }
    }
    (missing, checked)
}

/// id of the active blob: the blob file that is not in the closed list reported by the storage
/// (a concurrent background rotation can leave a closed blob with a higher id than the active one)
async fn active_id_of(s: &pearl::Storage<pearl::ArrayKey<8>>, dir: &std::path::Path) -> Option<usize> {
    if !s.has_active_blob().await {
        return None;
    }
    let det = s.records_count_detailed().await;
    let closed: Vec<usize> = det.iter().take(det.len().saturating_sub(1)).map(|d| d.0).collect();
    let rest: Vec<usize> = crate::drive::dir_ids(dir).into_iter().filter(|i| !closed.contains(i)).collect();
    if rest.len() == 1 {
        Some(rest[0])
    } else {
        rest.into_iter().max()
    }
}

/// Dedicated scenario: an index dump is requested (try_close_active_blob) while the previous dump
/// task is still running (its index write is delayed through an H1 failpoint): the request must not be lost.
async fn dump_request_while_dumping(l: &mut Loose<8>, delay_ms: u64, closes: usize, sticky: bool) -> Out {
    use pearl::verif::tap;
    let mut out = Out { violation: None, inconclusive: None, bg_inapplicable: 0, rotations: 0, index_files_checked: 0, polls: 0 };
    if let Err(e) = l.open(false).await {
        out.violation = Some(("init-failed-on-empty-dir".into(), e));
        return out;
    }
    let dir = l.dir.clone();
    tap::arm(&dir, false, false);
    if sticky {
        // variant B: several closed, dumped blobs hold key 0; then every index write becomes slow and ONE delete
        // appends a marker to all of them: one deferred dump request, one pass over all these blobs, which outlasts
        // the 200 ms time slice after the first or second blob and has to be continued
        for i in 0..closes {
            let _ = l.exec(&Op::Put { k: 0, ts: i as u64, meta: None, size: 20 }).await;
            let _ = l.exec(&Op::Close).await;
            let _ = l.exec(&Op::Create).await;
        }
        l.barrier().await;
        tap::set_faults(&dir, vec![tap::Fault { kinds: vec![tap::Kind::Write], suffix: ".index".into(), nth: 0, sticky: true, action: tap::Action::Delay(delay_ms) }]);
        let _ = l.exec(&Op::Del { k: 0, ts: 50, meta: None, only_if: false }).await;
    } else {
        tap::set_faults(&dir, vec![tap::Fault { kinds: vec![tap::Kind::Write], suffix: ".index".into(), nth: 0, sticky: false, action: tap::Action::Delay(delay_ms) }]);
        for i in 0..closes {
            let _ = l.exec(&Op::Put { k: i as u16 % 4, ts: i as u64, meta: None, size: 20 }).await;
            let _ = l.exec(&Op::Close).await;
            let _ = l.exec(&Op::Create).await;
        }
        let _ = l.exec(&Op::Put { k: 0, ts: 9, meta: None, size: 20 }).await;
    }
    let s = l.storage.as_ref().unwrap();
    let t0 = Instant::now();
    loop {
        out.polls += 1;
        if !s.verif_barrier(false).await {
            out.violation = Some(("worker-dead".into(), "worker died".into()));
            break;
        }
        let active_id = active_id_of(s, &dir).await;
        let (missing, checked) = closed_blobs_without_index(&dir, active_id);
        if std::env::var("PV_DEBUG_C13").is_ok() && sticky && out.polls % 50 == 1 {
            eprintln!("[c13 sticky] delay={} closes={} t={:?} polls={} missing={:?} checked={}", delay_ms, closes, t0.elapsed(), out.polls, missing, checked);
        }
        if missing.is_empty() {
            out.index_files_checked += checked;
            break;
        }
        // generous multiple of everything the injected delays can add up to
        let patience = Duration::from_secs(3) + if sticky { Duration::from_millis(delay_ms * closes as u64 * 10) } else { Duration::ZERO };
        if t0.elapsed() > patience && out.polls > 100 {
            out.violation = Some((if sticky { "closed-blob-never-dumped-after-long-dump-pass".to_string() } else { "dump-request-lost-while-dump-running".to_string() }, if sticky {
                format!("one delete appended a marker to {} closed blobs, every index write takes {} ms, so the dump pass outlasts the 200 ms time slice: blobs {:?} still have no current index file after {} worker barriers over {:?}", closes, delay_ms, missing, out.polls, t0.elapsed())
            } else {
                format!("blobs {:?} were closed with try_close_active_blob while an earlier index dump was still running ({} ms delayed index write); their dump request was never served: no index file after {} worker barriers over {:?}", missing, delay_ms, out.polls, t0.elapsed())
            }));
            break;
        }
        tokio::time::sleep(Duration::from_millis(5)).await;
    }
    let _ = tap::disarm(&dir);
    let st = l.storage.take().unwrap();
    let _ = tokio::time::timeout(Duration::from_secs(20), st.close()).await;
    out
}

async fn run(l: &mut Loose<8>, ops: &[Op], pred_gt: &[bool]) -> Out {
    let mut out = Out { violation: None, inconclusive: None, bg_inapplicable: 0, rotations: 0, index_files_checked: 0, polls: 0 };
    if let Err(e) = l.open(false).await {
        out.violation = Some(("init-failed-on-empty-dir".into(), e));
        return out;
    }
    let mut restarts = 0u64;
    for (i, op) in ops.iter().enumerate() {
        let s = l.storage.as_ref().unwrap();
        let has_active = s.has_active_blob().await;
        let closed = s.blobs_count().await - has_active as usize;
        match op {
            Op::CloseBg if !has_active => out.bg_inapplicable += 1,
            Op::CreateBg if has_active => out.bg_inapplicable += 1,
            Op::RestoreBg if has_active || closed == 0 => out.bg_inapplicable += 1,
            _ => {}
        }
        if let (Op::ForceUpdate { .. }, true) = (op, pred_gt[i]) {
            s.force_update_active_blob(|st| st.map_or(false, |st| st.records_count > 2)).await;
        } else if let Op::Restart { lazy, .. } = op {
            // close with a watchdog: a hang here is the property's business
            let st = l.storage.take().unwrap();
            match crate::drive::close_monitored(st, &l.dir, 8).await {
                crate::drive::CloseOutcome::Returned(_) => {}
                crate::drive::CloseOutcome::HungQuiescent(n) => {
                    out.violation = Some(("close-hangs".into(), format!("close() at step {} ({}) did not return although no I/O was in flight and no file operation happened during {} samples over 8 s", i, op.short(), n)));
                    return out;
                }
                crate::drive::CloseOutcome::HungBusy => {
                    out.inconclusive = Some(format!("close() did not return within 8 s at step {} ({}) while I/O was still happening", i, op.short()));
                    return out;
                }
            }
            if l.cfg.bloom_flip {
                // the directory is re-opened under another bloom configuration (hasher count, bit count, none)
                restarts += 1;
                l.cfg.bloom = crate::drive::next_bloom_cfg(l.cfg.bloom, restarts);
            }
            if let Err(e) = l.open(*lazy).await {
                out.violation = Some(("init-failed-after-clean-close".into(), format!("step {}: {}", i, e)));
                return out;
            }
        } else {
            let _ = l.exec(op).await;
        }
    }
    // ---- probe
    let s = l.storage.as_ref().unwrap();
    // (i)
    if !s.verif_worker_alive() {
        out.violation = Some(("worker-dead".into(), "the background worker task has finished after the history (no rotation, dumps or background syncs will ever happen)".into()));
        let st = l.storage.take().unwrap();
        let _ = tokio::time::timeout(Duration::from_secs(5), st.close()).await;
        return out;
    }
    // (iii-a) deferred dumps complete through the worker's own timers
    let t0 = Instant::now();
    loop {
        out.polls += 1;
        if !s.verif_barrier(false).await {
            out.violation = Some(("worker-dead".into(), "worker died while waiting for deferred dumps".into()));
            return out;
        }
        // the active blob's index is in memory; it may legitimately have a stale or absent file
        let has_active = s.has_active_blob().await;
        let active_id = active_id_of(s, &l.dir).await;
        let (missing, checked) = closed_blobs_without_index(&l.dir, active_id);
        if missing.is_empty() {
            out.index_files_checked += checked;
            break;
        }
        if t0.elapsed() > Duration::from_secs(3) && out.polls > 100 {
            let det = s.records_count_detailed().await;
            out.violation = Some(("index-dumps-do-not-complete".into(), format!("closed blobs {:?} still have no index file after {} worker barriers over {:?} (deferred dump maximum is 3 ms); records_count_detailed={:?} has_active={} next_blob_id={} index_memory(inactive)={}", missing, out.polls, t0.elapsed(), det, has_active, s.next_blob_id(), s.inactive_index_memory().await)));
            let st = l.storage.take().unwrap();
            let _ = tokio::time::timeout(Duration::from_secs(5), st.close()).await;
            return out;
        }
        tokio::time::sleep(Duration::from_millis(5)).await;
    }
    // (ii) overflow -> rotation
    let key = l.key(0);
    if let Err(e) = s.write(&key, bytes::Bytes::from(vec![7u8; 16]), BlobRecordTimestamp::new(50)).await {
        out.violation = Some(("write-failed-in-probe".into(), format!("{:#}", e)));
        return out;
    }
    let n0 = s.next_blob_id();
    for i in 0..7u64 {
        let _ = s.write(&l.key((i % 4) as u16), bytes::Bytes::from(vec![i as u8; 24]), BlobRecordTimestamp::new(60 + i)).await;
    }
    s.verif_barrier(true).await;
    if s.next_blob_id() == n0 {
        // the blob may be younger than the debounce interval: wait it out once
        tokio::time::sleep(Duration::from_millis(230)).await;
        let mut rotated = false;
        for i in 0..3u64 {
            let _ = s.write(&l.key(1), bytes::Bytes::from(vec![9u8; 24]), BlobRecordTimestamp::new(70 + i)).await;
            if !s.verif_barrier(true).await {
                out.violation = Some(("worker-dead".into(), "worker died during the overflow probe".into()));
                return out;
            }
            if s.next_blob_id() > n0 {
                rotated = true;
                break;
            }
        }
        if !rotated {
            let cnt = s.records_count_in_active_blob().await;
            out.violation = Some(("no-rotation-after-overflow".into(), format!("active blob holds {:?} records (limit: 5 records or 500 bytes), the debounce interval has passed and 3 more records were written, but no new blob was created", cnt)));
            let st = l.storage.take().unwrap();
            let _ = tokio::time::timeout(Duration::from_secs(5), st.close()).await;
            return out;
        }
    }
    out.rotations += 1;
    // (iii-b) after a flushing barrier every closed blob has an index file
    s.verif_barrier(true).await;
    let active_id = active_id_of(s, &l.dir).await;
    let (missing, checked) = closed_blobs_without_index(&l.dir, active_id);
    out.index_files_checked += checked;
    if !missing.is_empty() {
        out.violation = Some(("closed-blob-without-index-after-barrier".into(), format!("closed blobs {:?} have no index file after rotation and a flushing worker barrier", missing)));
    }
    // (iv) close returns
    let st = l.storage.take().unwrap();
    match crate::drive::close_monitored(st, &l.dir, 8).await {
        crate::drive::CloseOutcome::Returned(_) => {}
        crate::drive::CloseOutcome::HungQuiescent(n) => {
            out.violation = Some(("close-hangs".into(), format!("close() did not return although no I/O was in flight and no file operation happened during {} samples over 8 s", n)));
        }
        crate::drive::CloseOutcome::HungBusy => {
            out.inconclusive = Some("close() did not return within 8 s while I/O was still happening".into());
        }
    }
    out
}

/// Two deferred dump requests in a row: a closed, dumped blob holds two keys; with deferred-dump times of 30 / 90 ms
/// the first key is deleted (marker into the closed blob: its index returns to memory, a deferred dump is armed), and
/// `gap_ms` later the second one (a second request while the first deadline is pending, or just after it fired). Then
/// nothing else is asked of the storage: the worker's own timers must bring the index file up to date.
/// Dedicated scenario: a rotation request is still in the worker's queue when the client closes the active blob
/// (the write that reached the record limit has just returned; nothing waits for the worker in between). Whichever
/// of the two is served first, once the close has succeeded and the worker has drained its queue there is no active
/// blob: a rotation must not conjure one up out of nothing. Afterwards restore and create behave as documented.
async fn pending_rotation_then_close(l: &mut Loose<8>, limit: u64, yields: u32) -> Out {
    let mut out = Out { violation: None, inconclusive: None, bg_inapplicable: 0, rotations: 0, index_files_checked: 0, polls: 0 };
    if let Err(e) = l.open(false).await {
        out.violation = Some(("init-failed-on-empty-dir".into(), e));
        return out;
    }
    let s = l.storage.as_ref().unwrap();
    for i in 0..limit {
        let key = l.key(i as u16);
        if i + 1 == limit {
            // a rotation is only requested for a blob older than the debounce interval (0 ms here: "older than 0 ms")
            tokio::time::sleep(Duration::from_millis(3)).await;
        }
        if let Err(e) = s.write(&key, bytes::Bytes::from(vec![7u8; 20]), pearl::BlobRecordTimestamp::new(1)).await {
            out.violation = Some(("write-failed".into(), format!("{:#}", e)));
            return out;
        }
    }
    // the last write has queued a rotation request; give the worker `yields` chances to run before the close
    for _ in 0..yields {
        tokio::task::yield_now().await;
    }
    let closed = s.try_close_active_blob().await;
    if !s.verif_barrier(false).await {
        out.violation = Some(("worker-dead".into(), "worker died".into()));
        return out;
    }
    let (active, blobs, next) = (s.has_active_blob().await, s.blobs_count().await, s.next_blob_id());
    if closed.is_ok() && active {
        out.violation = Some(("active-blob-appears-after-close".into(), format!("{} records were written (record limit {}), then try_close_active_blob succeeded; once the worker had served its queue an active blob exists again although nothing was written or created: has_active_blob = true, blobs_count = {}, next_blob_id = {}", limit, limit, blobs, next)));
    } else if closed.is_ok() {
        // the documented preconditions hold: restore must work, then close again, then create
        if let Err(e) = s.try_restore_active_blob().await {
            out.violation = Some(("restore-refused-without-active-blob".into(), format!("try_restore_active_blob failed although there is no active blob and a closed one exists: {:#}", e)));
        } else if let Err(e) = s.try_close_active_blob().await {
            out.violation = Some(("close-refused-after-restore".into(), format!("{:#}", e)));
        } else if let Err(e) = s.try_create_active_blob().await {
            out.violation = Some(("create-refused-without-active-blob".into(), format!("{:#}", e)));
        }
        out.rotations += 1;
    }
    let st = l.storage.take().unwrap();
    let _ = tokio::time::timeout(Duration::from_secs(20), st.close()).await;
    out
}

async fn two_deferred_requests(l: &mut Loose<8>, gap_ms: u64, poke: bool) -> Out {
    let mut out = Out { violation: None, inconclusive: None, bg_inapplicable: 0, rotations: 0, index_files_checked: 0, polls: 0 };
    if let Err(e) = l.open(false).await {
        out.violation = Some(("init-failed-on-empty-dir".into(), e));
        return out;
    }
    for k in 0..3u16 {
        let _ = l.exec(&Op::Put { k, ts: 1, meta: None, size: 20 }).await;
    }
    let _ = l.exec(&Op::Close).await;
    let _ = l.exec(&Op::Create).await;
    l.barrier().await;
    let _ = l.exec(&Op::Del { k: 0, ts: 5, meta: None, only_if: true }).await;
    tokio::time::sleep(Duration::from_millis(gap_ms)).await;
    let _ = l.exec(&Op::Del { k: 1, ts: 5, meta: None, only_if: true }).await;
    if poke {
        // an unrelated request to the worker while the deadline is pending
        let _ = l.exec(&Op::CreateBg).await;
    }
    let s = l.storage.as_ref().unwrap();
    let dir = l.dir.clone();
    let t0 = Instant::now();
    loop {
        out.polls += 1;
        let active_id = active_id_of(s, &dir).await;
        let (missing, checked) = closed_blobs_without_index(&dir, active_id);
        if missing.is_empty() {
            out.index_files_checked += checked;
            break;
        }
        if t0.elapsed() > Duration::from_secs(10) {
            if !s.verif_worker_alive() {
                out.violation = Some(("worker-dead".into(), "worker died".into()));
            } else {
                out.violation = Some(("deferred-dump-never-happens/two-requests".into(), format!("two deletes into a closed, dumped blob {} ms apart (deferred dump times 30 / 90 ms){}: {:?} after the second one the index file of blob {:?} is still not current; nothing else was asked of the storage (no barrier, no write)", gap_ms, if poke { ", followed by a background create request" } else { "" }, t0.elapsed(), missing)));
            }
            break;
        }
        // plain waiting: no message is sent to the worker
        tokio::time::sleep(Duration::from_millis(10)).await;
    }
    let st = l.storage.take().unwrap();
    let _ = tokio::time::timeout(Duration::from_secs(20), st.close()).await;
    out
}

static GATE: std::sync::atomic::AtomicU8 = std::sync::atomic::AtomicU8::new(0);

/// Worker busy and its channel full: a predicate passed to force_update_active_blob keeps the worker inside one
/// request (it spins on a static gate, at most 8 s), meanwhile more than a channel's worth of other requests is
/// queued by separate tasks, and one more write brings the active blob to its record limit. Then the gate opens.
/// No further write follows: the request for the switch must not get lost in the crowd.
async fn channel_full_scenario(l: &mut Loose<8>) -> Out {
    use std::sync::atomic::Ordering;
    let mut out = Out { violation: None, inconclusive: None, bg_inapplicable: 0, rotations: 0, index_files_checked: 0, polls: 0 };
    if let Err(e) = l.open(false).await {
        out.violation = Some(("init-failed-on-empty-dir".into(), e));
        return out;
    }
    let s = std::sync::Arc::new(l.storage.take().unwrap());
    for i in 0..4u64 {
        let _ = s.write(&l.key((i % 4) as u16), bytes::Bytes::from(vec![i as u8; 24]), BlobRecordTimestamp::new(i)).await;
    }
    tokio::time::sleep(Duration::from_millis(260)).await;
    let n0 = s.next_blob_id();
    GATE.store(1, Ordering::SeqCst);
    // (a non-capturing closure: the predicate type is a plain fn pointer and its argument type is not exported)
    s.force_update_active_blob(|_| {
        let t0 = Instant::now();
        while GATE.load(std::sync::atomic::Ordering::SeqCst) == 1 && t0.elapsed() < Duration::from_secs(8) {
            std::thread::sleep(Duration::from_millis(1));
        }
        false
    })
    .await;
    // give the worker time to enter the predicate, then queue 1100 requests (the channel holds 1024)
    tokio::time::sleep(Duration::from_millis(30)).await;
    let mut fillers = Vec::new();
    for _ in 0..1100 {
        let s2 = s.clone();
        fillers.push(tokio::spawn(async move {
            let _ = s2.free_excess_resources().await;
        }));
    }
    tokio::time::sleep(Duration::from_millis(50)).await;
    let key = l.key(1);
    let s3 = s.clone();
    let w = tokio::spawn(async move { s3.write(&key, bytes::Bytes::from(vec![9u8; 24]), BlobRecordTimestamp::new(9)).await.is_ok() });
    tokio::time::sleep(Duration::from_millis(50)).await;
    GATE.store(0, Ordering::SeqCst);
    let wrote = w.await.unwrap_or(false);
    for f in fillers {
        let _ = f.await;
    }
    let alive = s.verif_barrier(true).await;
    let rotated = s.next_blob_id() > n0;
    let cnt = s.records_count_in_active_blob().await;
    if !alive {
        out.violation = Some(("worker-dead".into(), "worker died in the channel-full scenario".into()));
    } else if !wrote {
        out.inconclusive = Some("the limit-reaching write failed in the channel-full scenario".into());
    } else if !rotated {
        out.violation = Some(("no-rotation-after-overflow/worker-busy-channel-full".into(), format!("the write that brought the active blob to its limit (5 records) was issued while the worker was busy and its channel was full; after the worker caught up (barrier) the blob was not replaced: {:?} records, and no further write will ask again", cnt)));
    } else {
        out.rotations += 1;
    }
    if let Ok(st) = std::sync::Arc::try_unwrap(s) {
        let _ = tokio::time::timeout(Duration::from_secs(20), st.close()).await;
    }
    out
}

/// The wall clock steps back (NTP correction, VM resume) while the storage runs: the age of the active blob, which
/// the rotation debounce looks at, is computed from wall-clock times. Rotation must go on. The step is injected
/// process-locally into CLOCK_REALTIME (see clock.rs); timers use the monotonic clock and are not affected.
async fn clock_step_scenario(l: &mut Loose<8>, back_s: i64) -> Out {
    let mut out = Out { violation: None, inconclusive: None, bg_inapplicable: 0, rotations: 0, index_files_checked: 0, polls: 0 };
    if let Err(e) = l.open(false).await {
        out.violation = Some(("init-failed-on-empty-dir".into(), e));
        return out;
    }
    for i in 0..3u64 {
        let _ = l.exec(&Op::Put { k: (i % 4) as u16, ts: i, meta: None, size: 20 }).await;
    }
    // older than the rotation debounce
    tokio::time::sleep(Duration::from_millis(260)).await;
    let before = std::time::SystemTime::now();
    crate::clock::set_realtime_offset(-back_s);
    let stepped = std::time::SystemTime::now() < before;
    let s = l.storage.as_ref().unwrap();
    let n0 = s.next_blob_id();
    let mut rotated = false;
    for i in 0..12u64 {
        let _ = s.write(&l.key((i % 4) as u16), bytes::Bytes::from(vec![i as u8; 24]), BlobRecordTimestamp::new(10 + i)).await;
        if !s.verif_barrier(true).await {
            out.violation = Some(("worker-dead".into(), "worker died after the clock step".into()));
            break;
        }
        if s.next_blob_id() > n0 {
            rotated = true;
            break;
        }
    }
    let cnt = s.records_count_in_active_blob().await;
    crate::clock::set_realtime_offset(0);
    if !stepped {
        out.inconclusive = Some("the injected clock step had no effect on SystemTime::now()".into());
    } else if out.violation.is_none() && !rotated {
        out.violation = Some(("no-rotation-after-wall-clock-step-back".into(), format!("the wall clock was set back by {} s after the active blob had been created; 12 more records were written (limit 5, each followed by a worker barrier) and the active blob was never replaced: it holds {:?} records", back_s, cnt)));
    } else {
        out.rotations += 1;
    }
    let st = l.storage.take().unwrap();
    let _ = tokio::time::timeout(Duration::from_secs(20), st.close()).await;
    out
}

pub fn shard(ctx: &Ctx) -> Shard {
    let mut sh = Shard::default();
    let mut rng = Rng::new(ctx.shard_seed());
    let p = profile();
    let mut n = 0u64;
    while ctx.time_left() {
        let mut cfg = random_cfg(&mut rng, p.n_keys, p.n_meta, Some(true));
        cfg.keylen = 8;
        // the limit that the overflow probe exceeds: 5 records, or 500 bytes of blob file
        if n % 2 == 0 {
            cfg.max_records = Some(5);
        } else {
            cfg.max_blob_size = Some(500);
        }
        sh.add(if cfg.max_records.is_some() { "probes_record_limit" } else { "probes_size_limit" }, 1);
        let ops = gen_history(&mut rng, &p);
        let mut pred_gt: Vec<bool> = ops.iter().map(|_| rng.chance(1, 3)).collect();
        let dir = new_dir("c13-");
        let mut l: Loose<8> = Loose::new(dir.clone(), cfg.clone());
        if n % 16 == 9 {
            cfg.max_records = None;
            cfg.max_blob_size = None;
            cfg.deferred_ms = Some((30, 90));
            l.cfg = cfg.clone();
            let gap = *rng.pick(&[2u64, 10, 20, 28, 35, 60]);
            let poke = rng.chance(1, 3);
            let r = block_on_catch(cfg.mt, two_deferred_requests(&mut l, gap, poke));
            rm_dir(&dir);
            n += 1;
            sh.evaluations += 1;
            sh.add("two_deferred_requests_scenarios", 1);
            sh.nontrivial.insert(fnv(format!("tdr-{}-{}-{}", gap, poke, n).as_bytes()));
            let replay = json!({"check": "c13-two-deferred-requests", "cfg": cfg.to_json(), "gap_ms": gap, "poke": poke});
            match r {
                Ok(out) => {
                    sh.add("closed_blob_index_files_checked", out.index_files_checked);
                    if let Some((sig, detail)) = out.violation {
                        sh.violation(&ctx.known, "C13", ctx.seed, &format!("C13/{}", sig), &detail, replay);
                    }
                }
                Err(p) => sh.violation(&ctx.known, "C13", ctx.seed, "C13/panic", &p, replay),
            }
            continue;
        }
        if n % 16 == 3 {
            let limit = rng.range(1, 4);
            cfg.max_records = Some(limit);
            cfg.max_blob_size = None;
            cfg.auto_rotate = true;
            cfg.mt = rng.chance(1, 3);
            l.cfg = cfg.clone();
            let yields = rng.below(3) as u32;
            let r = block_on_catch(cfg.mt, pending_rotation_then_close(&mut l, limit, yields));
            rm_dir(&dir);
            n += 1;
            sh.evaluations += 1;
            sh.add("pending_rotation_then_close_scenarios", 1);
            sh.nontrivial.insert(fnv(format!("prc-{}-{}-{}-{}", limit, yields, cfg.mt, n).as_bytes()));
            let replay = json!({"check": "c13-pending-rotation-then-close", "cfg": cfg.to_json(), "limit": limit, "yields": yields});
            match r {
                Ok(out) => {
                    if let Some((sig, detail)) = out.violation {
                        sh.violation(&ctx.known, "C13", ctx.seed, &format!("C13/{}", sig), &detail, replay);
                    }
                }
                Err(p) => sh.violation(&ctx.known, "C13", ctx.seed, "C13/panic", &p, replay),
            }
            continue;
        }
        if n % 16 == 13 {
            cfg.max_records = Some(5);
            cfg.max_blob_size = None;
            cfg.mt = true;
            l.cfg = cfg.clone();
            let r = block_on_catch(true, channel_full_scenario(&mut l));
            GATE.store(0, std::sync::atomic::Ordering::SeqCst);
            rm_dir(&dir);
            n += 1;
            sh.evaluations += 1;
            sh.add("worker_busy_channel_full_scenarios", 1);
            sh.nontrivial.insert(fnv(format!("chf-{}", n).as_bytes()));
            let replay = json!({"check": "c13-channel-full", "cfg": cfg.to_json()});
            match r {
                Ok(out) => {
                    if let Some(i) = out.inconclusive {
                        sh.inconclusive.push(i);
                    }
                    if let Some((sig, detail)) = out.violation {
                        sh.violation(&ctx.known, "C13", ctx.seed, &format!("C13/{}", sig), &detail, replay);
                    }
                }
                Err(p) => sh.violation(&ctx.known, "C13", ctx.seed, "C13/panic", &p, replay),
            }
            continue;
        }
        if n % 16 == 5 {
            cfg.max_records = Some(5);
            cfg.max_blob_size = None;
            l.cfg = cfg.clone();
            let back = *rng.pick(&[5i64, 3600, 86_400 * 400]);
            let r = block_on_catch(cfg.mt, clock_step_scenario(&mut l, back));
            crate::clock::set_realtime_offset(0);
            rm_dir(&dir);
            n += 1;
            sh.evaluations += 1;
            sh.add("wall_clock_step_back_scenarios", 1);
            sh.nontrivial.insert(fnv(format!("clk-{}-{}", back, n).as_bytes()));
            let replay = json!({"check": "c13-clock-step", "cfg": cfg.to_json(), "back_s": back});
            match r {
                Ok(out) => {
                    if let Some(i) = out.inconclusive {
                        sh.inconclusive.push(i);
                    }
                    if let Some((sig, detail)) = out.violation {
                        sh.violation(&ctx.known, "C13", ctx.seed, &format!("C13/{}", sig), &detail, replay);
                    }
                }
                Err(p) => sh.violation(&ctx.known, "C13", ctx.seed, "C13/panic", &p, replay),
            }
            continue;
        }
        if n % 8 == 7 {
            // variant A: the first index write is slow (a dump is requested while the previous one runs);
            // variant B: every index write is slow, so that one dump pass over several closed blobs outlasts
            // pearl's 200 ms time slice and has to be continued
            let sticky = n % 24 == 23;
            let delay = if sticky { rng.range(110, 260) } else { rng.range(20, 60) };
            let closes = if sticky { rng.range(3, 5) as usize } else { rng.range(2, 4) as usize };
            if sticky {
                sh.add("dump_pass_longer_than_time_slice_scenarios", 1);
            }
            let r = block_on_catch(cfg.mt, dump_request_while_dumping(&mut l, delay, closes, sticky));
            rm_dir(&dir);
            n += 1;
            sh.evaluations += 1;
            sh.add("dump_while_dumping_scenarios", 1);
            sh.nontrivial.insert(fnv(format!("dwd-{}-{}-{}", delay, closes, cfg.mt).as_bytes()));
            let replay = json!({"check": "c13-dump-while-dumping", "cfg": cfg.to_json(), "delay_ms": delay, "closes": closes, "every_index_write_delayed": sticky});
            match r {
                Ok(out) => {
                    sh.add("closed_blob_index_files_checked", out.index_files_checked);
                    if let Some((sig, detail)) = out.violation {
                        sh.violation(&ctx.known, "C13", ctx.seed, &format!("C13/{}", sig), &detail, replay);
                    }
                }
                Err(p) => sh.violation(&ctx.known, "C13", ctx.seed, "C13/panic", &p, replay),
            }
            continue;
        }
        // a third of the histories use longer deferred-dump times (30 / 90 ms instead of 1 / 3 ms): the operations that
        // follow a delete into a closed blob then reach the worker while its deferred deadline is still pending,
        // and a second deferred request can arrive before the first one is due
        if n % 3 == 0 {
            cfg.deferred_ms = Some((30, 90));
            l.cfg = cfg.clone();
            sh.add("histories_long_deferred_dump_times", 1);
        }
        // a quarter of the histories re-open the directory under another bloom configuration at every restart
        let mut ops = ops;
        if n % 4 == 1 {
            cfg.bloom = 1;
            cfg.bloom_flip = true;
            l.cfg = cfg.clone();
            // at least two restarts, one of them right before the overflow probe
            let at = rng.below(ops.len() as u64 + 1) as usize;
            ops.insert(at, Op::Restart { lazy: rng.chance(1, 3), rm_idx: 0 });
            ops.push(Op::Restart { lazy: false, rm_idx: 0 });
            pred_gt.insert(at, false);
            pred_gt.push(false);
            sh.add("histories_bloom_config_changes_across_restarts", 1);
        }
        // a third of the histories: tiny dirty-byte limit and slow blob syncs (delay failpoint), so that
        // background syncs are running while lifecycle requests ask for the exclusive storage lock
        let slow_sync = n % 3 == 2;
        if slow_sync {
            cfg.max_dirty = Some(*rng.pick(&[0u64, 64, 1000]));
            l.cfg = cfg.clone();
        }
        let sync_delay = rng.range(2, 9);
        let dir2 = dir.clone();
        let r = block_on_catch(cfg.mt, async {
            pearl::verif::tap::arm(&dir2, false, false);
            if slow_sync {
                pearl::verif::tap::set_faults(&dir2, vec![pearl::verif::tap::Fault { kinds: vec![pearl::verif::tap::Kind::Sync], suffix: ".blob".into(), nth: 0, sticky: true, action: pearl::verif::tap::Action::Delay(sync_delay) }]);
            }
            let m = crate::drive::hang_monitored(&dir2, 15, 120, run(&mut l, &ops, &pred_gt)).await;
            let _ = pearl::verif::tap::disarm(&dir2);
            m
        });
        rm_dir(&dir);
        n += 1;
        sh.evaluations += 1;
        if slow_sync {
            sh.add("histories_with_slow_background_syncs", 1);
        }
        let replay = json!({"check": "c13", "cfg": cfg.to_json(), "history": history_json(&ops), "short": history_short(&ops), "pred_records_gt_2": pred_gt, "slow_sync_ms": if slow_sync { sync_delay } else { 0 }});
        let r = match r {
            Ok(crate::drive::Monitored::Returned(out)) => Ok(out),
            Ok(crate::drive::Monitored::HungQuiescent(q)) => {
                sh.violation(&ctx.known, "C13", ctx.seed, "C13/storage-call-hangs", &format!("a storage call of the history (or of the overflow / close probe) stayed pending while no file operation started, finished or was in flight during {} consecutive samples (> 15 s): deadlock", q), replay);
                continue;
            }
            Ok(crate::drive::Monitored::HungBusy) => {
                sh.inconclusive.push("history still pending after 120 s while file operations kept happening".into());
                continue;
            }
            Err(p) => Err(p),
        };
        match r {
            Ok(out) => {
                sh.add("probes", 1);
                sh.add("background_requests_in_inapplicable_state", out.bg_inapplicable);
                sh.add("rotations_observed_after_overflow", out.rotations);
                sh.add("closed_blob_index_files_checked", out.index_files_checked);
                sh.add("deferred_dump_polls", out.polls);
                let has_deferred = ops.iter().any(|o| matches!(o, Op::Del { .. }));
                if out.bg_inapplicable > 0 || has_deferred {
                    sh.nontrivial.insert(fnv(history_short(&ops).as_bytes()));
                }
                if sh.samples.is_empty() && out.bg_inapplicable > 0 {
                    sh.sample(json!({"history": history_short(&ops), "background_requests_that_did_not_apply": out.bg_inapplicable, "runtime": if cfg.mt { "multi-thread" } else { "current-thread" }}));
                }
                if let Some(i) = out.inconclusive {
                    sh.inconclusive.push(i);
                }
                if let Some((sig, detail)) = out.violation {
                    sh.violation(&ctx.known, "C13", ctx.seed, &format!("C13/{}", sig), &detail, replay);
                }
            }
            Err(p) => sh.violation(&ctx.known, "C13", ctx.seed, "C13/panic", &p, replay),
        }
    }
    sh.add("histories", n);
    sh
}

pub fn replay(r: &serde_json::Value) -> i32 {
    let cfg = match crate::drive::Cfg::from_json(&r["cfg"]) {
        Some(c) => c,
        None => return 2,
    };
    let ops = match crate::ops::history_from_json(&r["history"]) {
        Some(o) => o,
        None => return 2,
    };
    let pred_gt: Vec<bool> = r["pred_records_gt_2"].as_array().map(|a| a.iter().map(|x| x.as_bool().unwrap_or(false)).collect()).unwrap_or_else(|| vec![false; ops.len()]);
    let mut worst = 0;
    for attempt in 0..20 {
        let dir = new_dir("c13r-");
        let mut l: Loose<8> = Loose::new(dir.clone(), cfg.clone());
        let res = block_on_catch(cfg.mt, run(&mut l, &ops, &pred_gt));
        match res {
            Ok(out) => {
                if let Some((sig, d)) = out.violation {
                    println!("attempt {}: VIOLATION {}: {}", attempt, sig, d);
                    let _ = std::process::Command::new("ls").arg("-la").arg(&dir).status();
                    worst = 1;
                    rm_dir(&dir);
                    break;
                } else {
                    println!("attempt {}: held", attempt);
                }
            }
            Err(p) => {
                println!("attempt {}: panic {}", attempt, p);
                worst = 1;
            }
        }
        rm_dir(&dir);
    }
    worst
}
