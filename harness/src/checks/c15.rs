//! C15 - accounting: counts, ids and sizes always match the operation history.

use super::modelchk::{no_tweak, Spec};
use crate::drive::{Class, S_COUNTS, S_DISK};
use crate::evidence::{Meta, Shard};
use crate::ops::Profile;
use crate::runner::{Ctx, Plan};

pub fn plan() -> Plan {
    Plan {
        meta: Meta {
            property: "C15",
            level: "exploration",
            rule: "model differential after EVERY step: records_count, records_count_detailed (counts per blob in order, ids of closed blobs), records_count_in_active_blob, blobs_count, next_blob_id, corrupted_blobs_count against the model (records physically appended per blob incl. markers, blobs that exist); disk_used against the directory listing: exact equality at quiescent points (right after free_excess_resources + worker barrier when the active blob has no index file), otherwise bounded by [sum of blob files, sum of blob+index files]. Histories: puts/deletes (incl. deletes into closed blobs), manual close/restore/create, background variants, force updates, dumps, restarts with index removal, plus quarantine scenarios (see observed.quarantine_*). Non-trivial = history with >=1 lifecycle operation that ran >=3 steps.",
            assumptions: vec!["verdict holds for the executions produced by this seed only"],
        },
        shards: 16,
        soft_s: (22, 420),
        exhaustive: None,
        min_evaluations: 200,
        extra: None,
    }
}

pub fn spec() -> Spec {
    Spec {
        property: "C15",
        check_name: "c15",
        profile: Profile::c15(),
        surface: S_COUNTS | S_DISK,
        owned: vec![Class::Counts, Class::DiskUsed],
        nontrivial_rule: 0,
        dup: None,
        enumerate_len: (0, 0),
        max_random: (100_000, 10_000_000),
        tweak_cfg: no_tweak,
    }
}

pub fn shard(ctx: &Ctx) -> Shard {
    super::modelchk::shard(ctx, &spec())
}
