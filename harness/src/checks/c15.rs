//! C15 - accounting: counts, ids and sizes always match the operation history.

use super::modelchk::{no_tweak, Spec};
use crate::drive::{Class, S_COUNTS, S_DISK};
use crate::evidence::{Meta, Shard};
use crate::ops::Profile;
use crate::runner::{Ctx, Plan};

pub fn plan() -> Plan {
    Plan {
        meta: Meta {
            property: "C15",
            level: "exploration",
            rule: "model differential after EVERY step: records_count, records_count_detailed (counts per blob in order, ids of closed blobs), records_count_in_active_blob, blobs_count, next_blob_id, corrupted_blobs_count against the model (records physically appended per blob incl. markers, blobs that exist); disk_used against the directory listing: exact equality at quiescent points (right after free_excess_resources + worker barrier when the active blob has no index file), otherwise bounded by [sum of blob files, sum of blob+index files]. Histories: puts/deletes (incl. deletes into closed blobs), manual close/restore/create, background variants, force updates, dumps, restarts with index removal, plus quarantine scenarios (a blob cut inside a record header with its index removed => quarantined, or with ignore_corrupted left in place: not counted, id still taken, bytes not 'used'; cut exactly at a record boundary => regenerated shorter; counters re-checked after two restarts; see observed.quarantine_scenarios_*). A quarter of the random histories rotate automatically (record limit 1-4 or size limit 100-900 bytes with a 0 ms rotation debounce; every rotation the worker performs is mirrored into the model, a rotation below the limit is a mismatch); one in eight starts with 9-14 small blobs (two-digit blob ids, several filter levels); one in twelve starts with a fat blob of 70-140 records (multi-leaf on-disk index). Non-trivial = history with >=1 lifecycle operation that ran >=3 steps.",
            assumptions: vec!["verdict holds for the executions produced by this seed only"],
        },
        shards: 16,
        soft_s: (22, 420),
        exhaustive: None,
        min_evaluations: 200,
        extra: None,
    }
}

pub fn spec() -> Spec {
    Spec {
        property: "C15",
        check_name: "c15",
        profile: Profile::c15(),
        surface: S_COUNTS | S_DISK,
        owned: vec![Class::Counts, Class::DiskUsed],
        nontrivial_rule: 0,
        dup: None,
        enumerate_len: (0, 0),
        max_random: (100_000, 10_000_000),
        tweak_cfg: no_tweak,
    }
}

/// Quarantine scenario: a history, clean close, one blob damaged so that it must be quarantined (cut inside a
/// record header + index removed) or regenerated shorter (cut exactly at a record boundary), reopen: every
/// counter must follow (corrupted_blobs_count, blobs_count, per-blob counts, records_count, next_blob_id, disk_used).
async fn quarantine_scenario(d: &mut crate::drive::Driver<8>, ops: &[crate::ops::Op], rng: &mut crate::rng::Rng) -> Result<&'static str, crate::drive::Mismatch> {
    use crate::ops::Op;
    d.open(false).await?;
    for op in ops {
        d.step(op).await?;
    }
    d.step(&Op::Dump).await?;
    d.close().await?;
    let ids: Vec<usize> = d.model.blobs.iter().filter(|(_, r)| !r.is_empty()).map(|(id, _)| *id).collect();
    if ids.len() < 2 {
        // with a single non-empty blob the reopen takes the "nothing left" paths, which are C06's subject
        return Ok("no-records");
    }
    let victim = *rng.pick(&ids);
    let path = d.dir.join(format!("t.{}.blob", victim));
    let bytes = std::fs::read(&path).unwrap_or_default();
    let bp = crate::parse::parse_blob(&bytes);
    if bp.records.is_empty() {
        return Ok("no-records");
    }
    let kind;
    if rng.chance(2, 3) {
        // inside the header of a random record: the blob cannot be scanned => quarantine
        let r = rng.pick(&bp.records);
        let cut = r.pos + 1 + rng.below(r.header_len - 1);
        std::fs::write(&path, &bytes[..cut as usize]).unwrap();
        let _ = std::fs::remove_file(path.with_extension("index"));
        if d.cfg.ignore_corrupted {
            // left in place and skipped: not a blob of the storage any more, not counted as corrupted either,
            // but its id stays taken (next_blob_id) and its bytes are not "disk used"
            d.model.blobs.remove(&victim);
            d.model.closed.retain(|c| *c != victim);
            if d.model.active == Some(victim) {
                d.model.active = None;
            }
            d.ignored_ids.insert(victim);
            kind = "ignored_in_place";
        } else {
            d.model.quarantine(victim);
            kind = "quarantined";
        }
    } else {
        // exactly at a record boundary: a shorter, well-formed blob; its index no longer matches and is regenerated
        if bp.records.len() < 2 {
            return Ok("no-records");
        }
        let keep = 1 + rng.below(bp.records.len() as u64 - 1) as usize;
        let cut = bp.records[keep - 1].end();
        std::fs::write(&path, &bytes[..cut as usize]).unwrap();
        d.model.blobs.get_mut(&victim).unwrap().truncate(keep);
        kind = "shortened";
    }
    let lazy = rng.chance(1, 3);
    let all_gone = d.model.blobs.is_empty();
    d.model.restart(lazy);
    if all_gone && lazy {
        // every blob quarantined + lazy init: no active blob is created
        d.model.active = None;
        d.model.blobs.clear();
        d.model.closed.clear();
        d.model.next_id = d.model.ids_ever.iter().next_back().map(|i| i + 1).unwrap_or(0);
    }
    d.open(lazy).await?;
    d.model.next_id = d.model.next_id.max(d.model.ids_ever.iter().next_back().map(|i| i + 1).unwrap_or(0));
    d.check(S_COUNTS | S_DISK | crate::drive::S_READ).await?;
    // a second restart: the quarantined blob stays counted, ids stay above it
    d.close().await?;
    let all_gone2 = d.model.blobs.is_empty();
    d.model.restart(false);
    if all_gone2 {
        // the directory has no blob file left: init_new
    }
    d.open(false).await?;
    d.model.next_id = d.st().next_blob_id().max(d.model.next_id);
    d.check(S_COUNTS | S_DISK).await?;
    d.close().await?;
    Ok(kind)
}

pub fn shard(ctx: &Ctx) -> Shard {
    use crate::runner::{block_on_catch, new_dir, rm_dir};
    let mut sub = ctx.clone();
    let total = ctx.deadline.saturating_duration_since(std::time::Instant::now());
    sub.deadline = std::time::Instant::now() + total * 4 / 5;
    let mut sh = super::modelchk::shard(&sub, &spec());
    // quarantine scenarios in the remaining fifth of the budget
    let mut rng = crate::rng::Rng::new(crate::rng::mix(ctx.shard_seed(), 0xC15));
    let p = Profile::c15();
    while ctx.time_left() {
        let mut cfg = super::common::random_cfg(&mut rng, p.n_keys, p.n_meta, Some(true));
        cfg.keylen = 8;
        cfg.validate_data = rng.chance(1, 2);
        cfg.ignore_corrupted = rng.chance(1, 3);
        let mut p2 = p.clone();
        p2.w_restart = 0;
        p2.w_bg = 0;
        let ops = crate::ops::gen_history(&mut rng, &p2);
        let dir = new_dir("c15q-");
        let mut d: crate::drive::Driver<8> = crate::drive::Driver::new(dir.clone(), cfg.clone(), 0xC15);
        let seed = rng.next();
        let mut crng = crate::rng::Rng::new(seed);
        let r = block_on_catch(cfg.mt, quarantine_scenario(&mut d, &ops, &mut crng));
        rm_dir(&dir);
        sh.evaluations += 1;
        let replay = serde_json::json!({"check": "c15-quarantine", "cfg": cfg.to_json(), "history": crate::ops::history_json(&ops), "seed": seed});
        match r {
            Ok(Ok(kind)) => {
                sh.add(&format!("quarantine_scenarios_{}", kind), 1);
                sh.nontrivial.insert(seed);
            }
            Ok(Err(m)) => {
                if matches!(m.class, Class::Counts | Class::DiskUsed) {
                    sh.violation(&ctx.known, "C15", ctx.seed, &format!("C15/quarantine-scenario/{}", m.sig), &m.detail, replay);
                } else {
                    sh.add("desync_histories", 1);
                }
            }
            Err(p) => sh.violation(&ctx.known, "C15", ctx.seed, "C15/quarantine-scenario/panic", &p, replay),
        }
    }
    sh
}
