//! C15 - accounting: counts, ids and sizes always match the operation history.

use super::modelchk::{no_tweak, Spec};
use crate::drive::{Class, S_COUNTS, S_DISK};
use crate::evidence::{Meta, Shard};
use crate::ops::Profile;
use crate::runner::{Ctx, Plan};

pub fn plan() -> Plan {
    Plan {
        meta: Meta {
            property: "C15",
            level: "exploration",
            rule: "model differential after EVERY step: records_count, records_count_detailed (counts per blob in order, ids of closed blobs), records_count_in_active_blob, blobs_count, next_blob_id, corrupted_blobs_count against the model (records physically appended per blob incl. markers, blobs that exist); disk_used against the directory listing: exact equality at quiescent points (right after free_excess_resources + worker barrier when the active blob has no index file), otherwise bounded by [sum of blob files, sum of blob+index files]. Histories: puts/deletes (incl. deletes into closed blobs), manual close/restore/create, background variants, force updates, dumps, restarts with index removal, plus quarantine scenarios (a blob cut inside a record header with its index removed => quarantined, or with ignore_corrupted left in place: not counted, id still taken, bytes not 'used'; cut exactly at a record boundary => regenerated shorter; counters re-checked after two restarts; plus the 'everything quarantined' scenario: the only blob is quarantined by a lazy start, the next start finds no blob file but a non-empty corrupted/ directory, one record is written, third start; see observed.quarantine_scenarios_*). A quarter of the random histories rotate automatically (record limit 1-4 or size limit 100-900 bytes with a 0 ms rotation debounce; every rotation the worker performs is mirrored into the model, a rotation below the limit is a mismatch); one in eight starts with 9-14 small blobs (two-digit blob ids, several filter levels); one in twelve starts with a fat blob of 70-140 records (multi-leaf on-disk index). Non-trivial = history with >=1 lifecycle operation that ran >=3 steps.",
            assumptions: vec!["verdict holds for the executions produced by this seed only"],
        },
        shards: 16,
        soft_s: (22, 420),
        exhaustive: None,
        min_evaluations: 200,
        extra: None,
    }
}

pub fn spec() -> Spec {
    Spec {
        property: "C15",
        check_name: "c15",
        profile: Profile::c15(),
        surface: S_COUNTS | S_DISK,
        owned: vec![Class::Counts, Class::DiskUsed],
        nontrivial_rule: 0,
        dup: None,
        enumerate_len: (0, 0),
        max_random: (100_000, 10_000_000),
        tweak_cfg: no_tweak,
    }
}

/// Quarantine scenario: a history, clean close, one blob damaged so that it must be quarantined (cut inside a
/// record header + index removed) or regenerated shorter (cut exactly at a record boundary), reopen: every
/// counter must follow (corrupted_blobs_count, blobs_count, per-blob counts, records_count, next_blob_id, disk_used).
async fn quarantine_scenario(d: &mut crate::drive::Driver<8>, ops: &[crate::ops::Op], rng: &mut crate::rng::Rng) -> Result<&'static str, crate::drive::Mismatch> {
    use crate::ops::Op;
    d.open(false).await?;
    for op in ops {
        d.step(op).await?;
    }
    d.step(&Op::Dump).await?;
    d.close().await?;
    let ids: Vec<usize> = d.model.blobs.iter().filter(|(_, r)| !r.is_empty()).map(|(id, _)| *id).collect();
    if ids.len() < 2 {
        // with a single non-empty blob the reopen takes the "nothing left" paths, which are C06's subject
        return Ok("no-records");
    }
    let victim = *rng.pick(&ids);
    let path = d.dir.join(format!("t.{}.blob", victim));
    let bytes = std::fs::read(&path).unwrap_or_default();
    let bp = crate::parse::parse_blob(&bytes);
    if bp.records.is_empty() {
        return Ok("no-records");
    }
    let kind;
    if rng.chance(2, 3) {
        // inside the header of a random record: the blob cannot be scanned => quarantine
        let r = rng.pick(&bp.records);
        let cut = r.pos + 1 + rng.below(r.header_len - 1);
        std::fs::write(&path, &bytes[..cut as usize]).unwrap();
        let _ = std::fs::remove_file(path.with_extension("index"));
        if d.cfg.ignore_corrupted {
            // left in place and skipped: not a blob of the storage any more, not counted as corrupted either,
            // but its id stays taken (next_blob_id) and its bytes are not "disk used"
            d.model.blobs.remove(&victim);
            d.model.closed.retain(|c| *c != victim);
            if d.model.active == Some(victim) {
                d.model.active = None;
            }
            d.ignored_ids.insert(victim);
            kind = "ignored_in_place";
        } else {
            d.model.quarantine(victim);
            kind = "quarantined";
        }
    } else {
        // exactly at a record boundary: a shorter, well-formed blob; its index no longer matches and is regenerated
        if bp.records.len() < 2 {
            return Ok("no-records");
        }
        let keep = 1 + rng.below(bp.records.len() as u64 - 1) as usize;
        let cut = bp.records[keep - 1].end();
        std::fs::write(&path, &bytes[..cut as usize]).unwrap();
        d.model.blobs.get_mut(&victim).unwrap().truncate(keep);
        kind = "shortened";
    }
    let lazy = rng.chance(1, 3);
    let all_gone = d.model.blobs.is_empty();
    d.model.restart(lazy);
    if all_gone && lazy {
        // every blob quarantined + lazy init: no active blob is created
        d.model.active = None;
        d.model.blobs.clear();
        d.model.closed.clear();
        d.model.next_id = d.model.ids_ever.iter().next_back().map(|i| i + 1).unwrap_or(0);
    }
    d.open(lazy).await?;
    d.model.next_id = d.model.next_id.max(d.model.ids_ever.iter().next_back().map(|i| i + 1).unwrap_or(0));
    d.check(S_COUNTS | S_DISK | crate::drive::S_READ).await?;
    // a second restart: the quarantined blob stays counted, ids stay above it
    d.close().await?;
    let all_gone2 = d.model.blobs.is_empty();
    d.model.restart(false);
    if all_gone2 {
        // the directory has no blob file left: init_new
    }
    d.open(false).await?;
    d.model.next_id = d.st().next_blob_id().max(d.model.next_id);
    d.check(S_COUNTS | S_DISK).await?;
    d.close().await?;
    Ok(kind)
}

/// Everything quarantined: the only blob of a directory is cut inside a record header (index removed), the
/// storage is started lazily (the blob is quarantined, no active blob is created), closed, and started again on a
/// directory that now has no blob file but a non-empty corrupted/ directory; then one record is written and the
/// storage restarted once more. The counters must follow at every stage.
async fn all_quarantined_scenario(dir: &std::path::Path, cfg: &crate::drive::Cfg, rng: &mut crate::rng::Rng) -> Result<(), (String, String)> {
    use bytes::Bytes;
    use pearl::{ArrayKey, BlobRecordTimestamp, Storage};
    let open = |lazy: bool| {
        let b = crate::drive::builder_for(cfg, dir);
        async move {
            let mut s: Storage<ArrayKey<8>> = b.build().map_err(|e| ("all-quarantined/build".to_string(), format!("{:#}", e)))?;
            let r = if lazy { s.init_lazy().await } else { s.init().await };
            r.map_err(|e| ("all-quarantined/init-failed".to_string(), format!("init(lazy={}) failed: {:#}", lazy, e)))?;
            Ok::<_, (String, String)>(s)
        }
    };
    let s = open(false).await?;
    let n = rng.range(2, 9);
    for i in 0..n {
        let key = ArrayKey::<8>::from(crate::drive::key_bytes(cfg.key_salt, i as u16, 8));
        s.write(&key, Bytes::from(crate::drive::value_bytes(0x1000 + i, 20)), BlobRecordTimestamp::new(i)).await.map_err(|e| ("all-quarantined/write".to_string(), format!("{:#}", e)))?;
    }
    s.close().await.map_err(|e| ("all-quarantined/close".to_string(), format!("{:#}", e)))?;
    let path = dir.join("t.0.blob");
    let bytes = std::fs::read(&path).unwrap_or_default();
    let bp = crate::parse::parse_blob(&bytes);
    let r = match bp.records.last() {
        Some(r) => r,
        None => return Ok(()),
    };
    let cut = r.pos + 1 + rng.below(r.header_len - 1);
    std::fs::write(&path, &bytes[..cut as usize]).unwrap();
    let _ = std::fs::remove_file(path.with_extension("index"));
    macro_rules! expect {
        ($s:expr, $stage:expr, $corr:expr, $blobs:expr, $recs:expr, $next_min:expr) => {{
            let got = ($s.corrupted_blobs_count(), $s.blobs_count().await, $s.records_count().await, $s.next_blob_id());
            if got.0 != $corr || got.1 != $blobs || got.2 != $recs || got.3 < $next_min {
                return Err((format!("all-quarantined/{}", $stage), format!("{}: (corrupted_blobs_count, blobs_count, records_count, next_blob_id) = {:?}, expected ({}, {}, {}, >= {})", $stage, got, $corr, $blobs, $recs, $next_min)));
            }
        }};
    }
    let s = open(true).await?;
    expect!(s, "after-lazy-init", 1, 0, 0, 1);
    s.close().await.map_err(|e| ("all-quarantined/close".to_string(), format!("{:#}", e)))?;
    let lazy2 = rng.chance(1, 2);
    let s = open(lazy2).await?;
    // a directory without blob files is initialised like a new one: a fresh active blob (eager or lazy alike)
    expect!(s, "after-restart-without-blob-files", 1, 1, 0, 2);
    let key = ArrayKey::<8>::from(crate::drive::key_bytes(cfg.key_salt, 99, 8));
    s.write(&key, Bytes::from(crate::drive::value_bytes(0x2000, 20)), BlobRecordTimestamp::new(1)).await.map_err(|e| ("all-quarantined/write-after".to_string(), format!("{:#}", e)))?;
    expect!(s, "after-first-write", 1, 1, 1, 2);
    let new_ids = crate::drive::dir_ids(dir);
    if new_ids.contains(&0) {
        return Err(("all-quarantined/id-reused".into(), format!("a new blob got id 0 although t.0.blob sits in corrupted/: {:?}", new_ids)));
    }
    s.close().await.map_err(|e| ("all-quarantined/close".to_string(), format!("{:#}", e)))?;
    let s = open(false).await?;
    expect!(s, "after-third-restart", 1, 1, 1, 2);
    s.close().await.map_err(|e| ("all-quarantined/close".to_string(), format!("{:#}", e)))?;
    Ok(())
}

pub fn shard(ctx: &Ctx) -> Shard {
    use crate::runner::{block_on_catch, new_dir, rm_dir};
    let mut sub = ctx.clone();
    let total = ctx.deadline.saturating_duration_since(std::time::Instant::now());
    sub.deadline = std::time::Instant::now() + total * 4 / 5;
    let mut sh = super::modelchk::shard(&sub, &spec());
    // quarantine scenarios in the remaining fifth of the budget
    let mut rng = crate::rng::Rng::new(crate::rng::mix(ctx.shard_seed(), 0xC15));
    let p = Profile::c15();
    let mut qn = 0u64;
    while ctx.time_left() {
        let mut cfg = super::common::random_cfg(&mut rng, p.n_keys, p.n_meta, Some(true));
        cfg.keylen = 8;
        cfg.validate_data = rng.chance(1, 2);
        // a third of the scenarios: the quarantine directory has another name; corrupted_blobs_count must count there
        if rng.chance(1, 3) {
            cfg.corrupted_dir = Some((*rng.pick(&["quarantine", "bad.blobs", "c"])).to_string());
            sh.add("quarantine_scenarios_custom_dir_name", 1);
        }
        qn += 1;
        if qn % 5 == 0 {
            let dir = new_dir("c15a-");
            let seed = rng.next();
            let mut crng = crate::rng::Rng::new(seed);
            let r = block_on_catch(cfg.mt, all_quarantined_scenario(&dir, &cfg, &mut crng));
            rm_dir(&dir);
            sh.evaluations += 1;
            let replay = serde_json::json!({"check": "c15-all-quarantined", "cfg": cfg.to_json(), "seed": seed});
            match r {
                Ok(Ok(())) => {
                    sh.add("quarantine_scenarios_everything_quarantined", 1);
                    sh.nontrivial.insert(seed);
                }
                Ok(Err((sig, d))) => sh.violation(&ctx.known, "C15", ctx.seed, &format!("C15/{}", sig), &d, replay),
                Err(p) => sh.violation(&ctx.known, "C15", ctx.seed, "C15/all-quarantined/panic", &p, replay),
            }
            continue;
        }
        cfg.ignore_corrupted = rng.chance(1, 3);
        let mut p2 = p.clone();
        p2.w_restart = 0;
        p2.w_bg = 0;
        let ops = crate::ops::gen_history(&mut rng, &p2);
        let dir = new_dir("c15q-");
        let mut d: crate::drive::Driver<8> = crate::drive::Driver::new(dir.clone(), cfg.clone(), 0xC15);
        let seed = rng.next();
        let mut crng = crate::rng::Rng::new(seed);
        let r = block_on_catch(cfg.mt, quarantine_scenario(&mut d, &ops, &mut crng));
        rm_dir(&dir);
        sh.evaluations += 1;
        let replay = serde_json::json!({"check": "c15-quarantine", "cfg": cfg.to_json(), "history": crate::ops::history_json(&ops), "seed": seed});
        match r {
            Ok(Ok(kind)) => {
                sh.add(&format!("quarantine_scenarios_{}", kind), 1);
                sh.nontrivial.insert(seed);
            }
            Ok(Err(m)) => {
                if matches!(m.class, Class::Counts | Class::DiskUsed) {
                    sh.violation(&ctx.known, "C15", ctx.seed, &format!("C15/quarantine-scenario/{}", m.sig), &m.detail, replay);
                } else {
                    sh.add("desync_histories", 1);
                }
            }
            Err(p) => sh.violation(&ctx.known, "C15", ctx.seed, "C15/quarantine-scenario/panic", &p, replay),
        }
    }
    sh
}
