//! C05 - byte integrity: values round-trip exactly; altered bytes are never served.

use crate::drive::{builder_for, key_bytes, value_bytes, Cfg};
use crate::evidence::{Meta as EvMeta, Shard};
use crate::parse;
use crate::rng::{fnv, Rng};
use crate::runner::{block_on_catch, new_dir, rm_dir, Ctx, Plan};
use bytes::Bytes;
use pearl::{ArrayKey, BlobRecordTimestamp, Meta, ReadResult, Storage};
use serde_json::json;
use std::os::unix::fs::FileExt;
use std::path::Path;

pub fn plan() -> Plan {
    Plan {
        meta: EvMeta {
            property: "C05",
            level: "fault_enumeration",
            rule: "(a) round trip: values of size 0, 1, every total record length in [4096-32, 4096+32] (single-pass threshold, computed from header+meta size of the key length in use), every length in [81920-32, 81920+32] (background-I/O threshold), 200 KiB, 1 MiB and random sizes, metas with 0-3 entries incl. empty and large values, are written and read back byte-for-byte through read, read_with, Entry::load, load_data and load_meta with the index in memory, on disk (after a dump) and regenerated (index removed + restart), on both runtime flavours (current-thread forces the background-I/O path). (b) corruption: for each stored record and byte position of its data region (all positions for records <= 512 B, boundaries + 64 random otherwise) x pattern {single bit, xor 0xFF, random burst <= 32 bits} the blob file is altered on disk; read / read_with / load_data / Entry::load must not return Ok(Found) (live session, index in memory and on disk); across a restart with the index removed and data validation on the blob must be quarantined intact (corrupted_blobs_count + 1, byte-identical file in corrupted/), with the index kept the read must fail. CRC-32C detects every burst <= 32 bits, so no probabilistic slack. Non-trivial = a case containing a value above the single-pass threshold or a corruption probe; distinct = hash(case).",
            assumptions: vec!["meta bytes are outside the corruption half of the statement", "verdict holds for the sizes / positions generated for this seed"],
        },
        shards: 16,
        soft_s: (26, 420),
        exhaustive: None,
        min_evaluations: 100,
        extra: None,
    }
}

fn rich_meta(rng: &mut Rng) -> (Meta, Vec<(String, Vec<u8>)>) {
    let mut m = Meta::new();
    let mut plain = Vec::new();
    let n = rng.below(4);
    for i in 0..n {
        let name = match rng.below(3) {
            0 => format!("k{}", i),
            1 => format!("name-{}-{}", i, "x".repeat(rng.below(20) as usize)),
            _ => format!("{}", i),
        };
        let v = match rng.below(4) {
            0 => Vec::new(),
            1 => rng.bytes_range(1, 16),
            2 => rng.bytes_range(100, 3000),
            _ => vec![0u8; rng.range(1, 64) as usize],
        };
        m.insert(name.clone(), v.clone());
        plain.retain(|(k, _): &(String, Vec<u8>)| *k != name);
        plain.push((name, v));
    }
    plain.sort();
    (m, plain)
}

fn meta_ser_len(plain: &[(String, Vec<u8>)]) -> usize {
    8 + plain.iter().map(|(k, v)| 8 + k.len() + 8 + v.len()).sum::<usize>()
}

struct Item {
    key: Vec<u8>,
    val: u64,
    size: u32,
    meta: Meta,
    meta_plain: Vec<(String, Vec<u8>)>,
    with_meta: bool,
}

async fn verify_all<const N: usize>(s: &Storage<ArrayKey<N>>, items: &[Item], phase: &str, sh: &mut Shard) -> Result<(), (String, String)> {
    for it in items {
        let key = ArrayKey::<N>::from(it.key.clone());
        let exp = value_bytes(it.val, it.size);
        let cls = size_class::<N>(it);
        let r = s.read(&key).await.map_err(|e| (format!("roundtrip/{}/read-err/{}", phase, cls), format!("read of {} B value failed: {:#}", it.size, e)))?;
        match r {
            ReadResult::Found(b) if b.as_ref() == exp.as_slice() => {}
            other => return Err((format!("roundtrip/{}/read-differs/{}", phase, cls), format!("read of {} B value returned {}", it.size, describe(&other, &exp)))),
        }
        sh.add("roundtrip_reads", 1);
        let r = s.read_with(&key, &it.meta).await.map_err(|e| (format!("roundtrip/{}/read_with-err/{}", phase, cls), format!("read_with of {} B value failed: {:#}", it.size, e)))?;
        match r {
            ReadResult::Found(b) if b.as_ref() == exp.as_slice() => {}
            other => return Err((format!("roundtrip/{}/read_with-differs/{}", phase, cls), format!("read_with(meta {:?}) of {} B value returned {}", it.meta_plain, it.size, describe(&other, &exp)))),
        }
        let entries = s.read_all(&key).await.map_err(|e| (format!("roundtrip/{}/read_all-err/{}", phase, cls), format!("{:#}", e)))?;
        if entries.len() != 1 {
            return Err((format!("roundtrip/{}/read_all-len/{}", phase, cls), format!("read_all returned {} entries for a key written once", entries.len())));
        }
        for mut e in entries {
            // Entry::load on an entry that has nothing cached yet (no load_meta / load_data before): the whole record
            // comes from one read; the same call again further down runs with the metadata cached
            let mut fresh = match s.read_all(&key).await {
                Ok(mut v) if v.len() == 1 => v.pop().unwrap(),
                _ => return Err((format!("roundtrip/{}/read_all-len/{}", phase, cls), "second read_all differs from the first".into())),
            };
            let rec0 = fresh.load().await.map_err(|e| (format!("roundtrip/{}/entry-load-err/{}", phase, cls), format!("{:#}", e)))?;
            if rec0.meta() != &it.meta {
                return Err((format!("roundtrip/{}/entry-load-meta-differs/{}", phase, cls), format!("Entry::load (nothing cached) returned meta {:?}, written {:?}", rec0.meta(), it.meta_plain)));
            }
            if rec0.into_data().as_ref() != exp.as_slice() {
                return Err((format!("roundtrip/{}/entry-load-differs/{}", phase, cls), format!("Entry::load (nothing cached) of {} B value differs", it.size)));
            }
            let d = e.load_data().await.map_err(|e| (format!("roundtrip/{}/load_data-err/{}", phase, cls), format!("{:#}", e)))?;
            if d.as_ref() != exp.as_slice() {
                return Err((format!("roundtrip/{}/load_data-differs/{}", phase, cls), format!("load_data of {} B value differs (got {} B)", it.size, d.len())));
            }
            let m = e.load_meta().await.map_err(|e| (format!("roundtrip/{}/load_meta-err/{}", phase, cls), format!("{:#}", e)))?.cloned();
            if m.as_ref() != Some(&it.meta) {
                return Err((format!("roundtrip/{}/load_meta-differs/{}", phase, cls), format!("load_meta returned {:?}, written {:?}", m, it.meta_plain)));
            }
            let rec = e.load().await.map_err(|e| (format!("roundtrip/{}/entry-load-err/{}", phase, cls), format!("{:#}", e)))?;
            if rec.meta() != &it.meta {
                return Err((format!("roundtrip/{}/entry-load-meta-differs/{}", phase, cls), "Entry::load meta differs".into()));
            }
            let data = rec.into_data();
            if data.as_ref() != exp.as_slice() {
                return Err((format!("roundtrip/{}/entry-load-differs/{}", phase, cls), format!("Entry::load of {} B value differs (got {} B)", it.size, data.len())));
            }
        }
        sh.add("roundtrip_entry_loads", 1);
    }
    Ok(())
}

fn describe(r: &ReadResult<Bytes>, exp: &[u8]) -> String {
    match r {
        ReadResult::Found(b) => {
            let first = b.iter().zip(exp.iter()).position(|(a, b)| a != b);
            format!("Found({} B, expected {} B, first difference at {:?})", b.len(), exp.len(), first)
        }
        ReadResult::Deleted(t) => format!("Deleted({})", t),
        ReadResult::NotFound => "NotFound".into(),
    }
}

fn size_class<const N: usize>(it: &Item) -> &'static str {
    let head = 57 + N + meta_ser_len(&it.meta_plain);
    let total = head + it.size as usize;
    if it.size == 0 {
        "empty"
    } else if total <= 4096 {
        "single-pass"
    } else if total <= 81920 {
        "double-buffer"
    } else {
        "background-io"
    }
}

fn sizes_for(rng: &mut Rng, part: u64, head: usize) -> Vec<u32> {
    // `part` walks through the two threshold windows; every case adds a few fixed and random sizes
    let mut v = Vec::new();
    let t1 = 4096usize.saturating_sub(head) as i64;
    let t2 = 81920usize.saturating_sub(head) as i64;
    let w = (part % 65) as i64 - 32;
    v.push((t1 + w).max(0) as u32);
    v.push((t2 + w).max(0) as u32);
    v.push(*rng.pick(&[0u32, 1, 2, 7, 8]));
    v.push(rng.range(9, 4000) as u32);
    v.push(rng.range(4000, 90_000) as u32);
    if part % 8 == 0 {
        v.push(200 * 1024);
    }
    if part % 24 == 5 {
        v.push(1024 * 1024);
    }
    v
}

async fn roundtrip_case<const N: usize>(cfg: &Cfg, dir: &Path, rng: &mut Rng, part: u64, sh: &mut Shard) -> Result<bool, (String, String)> {
    let mut s: Storage<ArrayKey<N>> = builder_for(cfg, dir).build().map_err(|e| ("roundtrip/build".to_string(), format!("{:#}", e)))?;
    s.init().await.map_err(|e| ("roundtrip/init".to_string(), format!("{:#}", e)))?;
    let mut items: Vec<Item> = Vec::new();
    let mut big = false;
    // a representative meta decides the header size used for the window of this case
    let (win_meta, win_plain) = if part % 2 == 0 { (Meta::new(), Vec::new()) } else { rich_meta(rng) };
    let head = 57 + N + meta_ser_len(&win_plain);
    for (i, size) in sizes_for(rng, part, head).into_iter().enumerate() {
        let (meta, plain, with_meta) = if i < 2 {
            (win_meta.clone(), win_plain.clone(), part % 2 == 1)
        } else if rng.chance(1, 2) {
            let (m, p) = rich_meta(rng);
            (m, p, true)
        } else {
            (Meta::new(), Vec::new(), false)
        };
        let val = (part << 16) | (i as u64 + 1) | (rng.next() << 40);
        let it = Item { key: key_bytes(cfg.key_salt, i as u16, N), val, size, meta, meta_plain: plain, with_meta };
        let key = ArrayKey::<N>::from(it.key.clone());
        let data = Bytes::from(value_bytes(val, size));
        let r = if it.with_meta {
            s.write_with(&key, data, BlobRecordTimestamp::new(i as u64), it.meta.clone()).await
        } else {
            s.write(&key, data, BlobRecordTimestamp::new(i as u64)).await
        };
        r.map_err(|e| ("roundtrip/write-err".to_string(), format!("write of {} B failed: {:#}", size, e)))?;
        if size_class::<N>(&it) != "single-pass" && size_class::<N>(&it) != "empty" {
            big = true;
        }
        sh.add(&format!("values_{}", size_class::<N>(&it)), 1);
        sh.max("max_value_size", size as u64);
        items.push(it);
    }
    verify_all(&s, &items, "index-in-memory", sh).await?;
    // on disk: close the active blob, dump
    s.try_close_active_blob().await.map_err(|e| ("roundtrip/close-active".to_string(), format!("{:#}", e)))?;
    if !s.verif_barrier(true).await {
        return Err(("roundtrip/worker-dead".into(), "worker dead".into()));
    }
    verify_all(&s, &items, "index-on-disk", sh).await?;
    s.close().await.map_err(|e| ("roundtrip/close".to_string(), format!("{:#}", e)))?;
    // independent parse: every record sound, data bytes equal
    let bp = parse::parse_blob_file(&dir.join("t.0.blob")).map_err(|e| ("roundtrip/parse-io".to_string(), e.to_string()))?;
    if !bp.complete_and_sound() || bp.records.len() != items.len() {
        return Err(("roundtrip/file-not-sound".into(), format!("independent parse of the blob: error {:?}, {} records (written {})", bp.error, bp.records.len(), items.len())));
    }
    for (r, it) in bp.records.iter().zip(items.iter()) {
        if r.data != value_bytes(it.val, it.size) || parse::parse_meta(&r.meta) != Some(it.meta_plain.clone()) {
            return Err(("roundtrip/file-bytes-differ".into(), format!("bytes of the {} B record in the blob file differ from what was written", it.size)));
        }
    }
    // regenerated index
    let _ = std::fs::remove_file(dir.join("t.0.index"));
    let mut s: Storage<ArrayKey<N>> = builder_for(cfg, dir).build().map_err(|e| ("roundtrip/build".to_string(), format!("{:#}", e)))?;
    s.init().await.map_err(|e| ("roundtrip/reinit".to_string(), format!("{:#}", e)))?;
    verify_all(&s, &items, "index-regenerated", sh).await?;
    s.close().await.map_err(|e| ("roundtrip/close".to_string(), format!("{:#}", e)))?;
    Ok(big)
}

fn alter(path: &Path, pos: u64, pattern: &[u8]) -> std::io::Result<Vec<u8>> {
    let f = std::fs::OpenOptions::new().read(true).write(true).open(path)?;
    let mut orig = vec![0u8; pattern.len()];
    f.read_exact_at(&mut orig, pos)?;
    let new: Vec<u8> = orig.iter().zip(pattern.iter()).map(|(a, b)| a ^ b).collect();
    f.write_all_at(&new, pos)?;
    Ok(orig)
}

fn restore(path: &Path, pos: u64, orig: &[u8]) -> std::io::Result<()> {
    let f = std::fs::OpenOptions::new().write(true).open(path)?;
    f.write_all_at(orig, pos)
}

/// xor pattern (<= 4 bytes + alignment => burst <= 32 bits), never all-zero
fn pattern(rng: &mut Rng, kind: u64, room: u64) -> Vec<u8> {
    match kind {
        0 => vec![1u8 << rng.below(8)],
        1 => vec![0xFF],
        _ => {
            let n = rng.range(1, 4.min(room.max(1))) as usize;
            let mut p = rng.bytes(n);
            if p.iter().all(|b| *b == 0) {
                p[0] = 0x5A;
            }
            p
        }
    }
}

async fn corruption_case<const N: usize>(cfg: &Cfg, dir: &Path, rng: &mut Rng, sh: &mut Shard) -> Result<(), (String, String)> {
    let mut s: Storage<ArrayKey<N>> = builder_for(cfg, dir).build().map_err(|e| ("corrupt/build".to_string(), format!("{:#}", e)))?;
    s.init().await.map_err(|e| ("corrupt/init".to_string(), format!("{:#}", e)))?;
    let n = rng.range(2, 6) as usize;
    let mut items = Vec::new();
    for i in 0..n {
        let size = match rng.below(6) {
            0 => rng.range(1, 16),
            1 | 2 => rng.range(16, 512),
            3 => rng.range(3900, 4200),
            4 => rng.range(4200, 20_000),
            _ => rng.range(81_000, 83_000),
        } as u32;
        let (meta, plain, with_meta) = if rng.chance(1, 3) {
            let (m, p) = rich_meta(rng);
            (m, p, true)
        } else {
            (Meta::new(), Vec::new(), false)
        };
        let it = Item { key: key_bytes(cfg.key_salt, i as u16, N), val: rng.next() | 1, size, meta, meta_plain: plain, with_meta };
        let key = ArrayKey::<N>::from(it.key.clone());
        let data = Bytes::from(value_bytes(it.val, size));
        let r = if it.with_meta { s.write_with(&key, data, BlobRecordTimestamp::new(1), it.meta.clone()).await } else { s.write(&key, data, BlobRecordTimestamp::new(1)).await };
        r.map_err(|e| ("corrupt/write-err".to_string(), format!("{:#}", e)))?;
        items.push(it);
    }
    let blob_path = dir.join("t.0.blob");
    let bp = parse::parse_blob_file(&blob_path).map_err(|e| ("corrupt/parse-io".to_string(), e.to_string()))?;
    if bp.records.len() != items.len() || !bp.complete_and_sound() {
        return Err(("corrupt/file-not-sound".into(), format!("blob does not parse: {:?}", bp.error)));
    }
    for phase in 0..2 {
        if phase == 1 {
            // move the index to disk
            s.try_close_active_blob().await.map_err(|e| ("corrupt/close-active".to_string(), format!("{:#}", e)))?;
            if !s.verif_barrier(true).await {
                return Err(("corrupt/worker-dead".into(), "worker dead".into()));
            }
        }
        let phase_name = if phase == 0 { "index-in-memory" } else { "index-on-disk" };
        for (r, it) in bp.records.iter().zip(items.iter()) {
            let dstart = r.pos + r.header_len + r.meta_size;
            let dlen = r.data_size;
            let mut positions: Vec<u64> = Vec::new();
            if dlen <= 512 {
                positions.extend(0..dlen);
            } else {
                positions.extend([0, 1, dlen / 2, dlen - 2, dlen - 1]);
                // buffer seams of the write path: 4096 - head, and page boundaries
                let head = r.header_len + r.meta_size;
                for b in [4096u64.saturating_sub(head), 4096, 8192, 65536, 81920u64.saturating_sub(head)] {
                    for d in [-1i64, 0] {
                        let p = b as i64 + d;
                        if p >= 0 && (p as u64) < dlen {
                            positions.push(p as u64);
                        }
                    }
                }
                let nrand = if phase == 0 { 64 } else { 16 };
                for _ in 0..nrand {
                    positions.push(rng.below(dlen));
                }
            }
            if phase == 1 && positions.len() > 40 {
                rng.shuffle(&mut positions);
                positions.truncate(40);
            }
            let key = ArrayKey::<N>::from(it.key.clone());
            for p in positions {
                for kind in 0..3 {
                    let pat = pattern(rng, kind, dlen - p);
                    let pat = &pat[..pat.len().min((dlen - p) as usize)];
                    let orig = alter(&blob_path, dstart + p, pat).map_err(|e| ("corrupt/alter-io".to_string(), e.to_string()))?;
                    sh.add("corruptions_probed", 1);
                    let mut served: Option<String> = None;
                    match s.read(&key).await {
                        Ok(ReadResult::Found(_)) => served = Some("read".into()),
                        _ => {}
                    }
                    if served.is_none() {
                        if let Ok(ReadResult::Found(_)) = s.read_with(&key, &it.meta).await {
                            served = Some("read_with".into());
                        }
                    }
                    if served.is_none() && kind == 0 {
                        if let Ok(es) = s.read_all(&key).await {
                            for e in es {
                                if e.load_data().await.is_ok() {
                                    served = Some("load_data".into());
                                } else if e.load().await.is_ok() {
                                    served = Some("Entry::load".into());
                                }
                            }
                        }
                    }
                    restore(&blob_path, dstart + p, &orig).map_err(|e| ("corrupt/restore-io".to_string(), e.to_string()))?;
                    if let Some(api) = served {
                        let pk = ["single-bit", "xor-ff", "burst"][kind as usize];
                        return Err((format!("corrupt/served/{}/{}/{}", api, phase_name, size_class::<N>(it)), format!("{} returned Ok(Found) although data byte {} of a {} B value was altered on disk ({} pattern {:02x?})", api, p, it.size, pk, pat)));
                    }
                }
            }
            // sanity: after restoring, the record reads back
            match s.read(&key).await {
                Ok(ReadResult::Found(b)) if b.as_ref() == value_bytes(it.val, it.size).as_slice() => {}
                other => return Err(("corrupt/harness-restore".into(), format!("record does not read back after restoring the bytes: {:?}", other.map(|r| r.is_found())))),
            }
        }
    }
    s.close().await.map_err(|e| ("corrupt/close".to_string(), format!("{:#}", e)))?;
    // across a restart: one altered byte in one record
    let victim = rng.below(items.len() as u64) as usize;
    let r = &bp.records[victim];
    let p = r.pos + r.header_len + r.meta_size + rng.below(r.data_size.max(1));
    let pk = rng.below(3);
    let pat = pattern(rng, pk, 1);
    alter(&blob_path, p, &pat[..1]).map_err(|e| ("corrupt/alter-io".to_string(), e.to_string()))?;
    let altered = std::fs::read(&blob_path).unwrap_or_default();
    // (1) index kept, validation irrelevant: init ok, the victim must not be served, the others read back
    {
        let mut s: Storage<ArrayKey<N>> = builder_for(cfg, dir).build().map_err(|e| ("corrupt/build".to_string(), format!("{:#}", e)))?;
        s.init().await.map_err(|e| ("corrupt/restart-init-with-index".to_string(), format!("init failed on a blob with one altered data byte and an intact index: {:#}", e)))?;
        for (i, it) in items.iter().enumerate() {
            let key = ArrayKey::<N>::from(it.key.clone());
            let got = s.read(&key).await;
            if i == victim {
                if let Ok(ReadResult::Found(_)) = got {
                    return Err((format!("corrupt/served/read/after-restart/{}", size_class::<N>(it)), format!("read returned Ok(Found) for a {} B value with an altered data byte after restart (index kept)", it.size)));
                }
            } else {
                match got {
                    Ok(ReadResult::Found(b)) if b.as_ref() == value_bytes(it.val, it.size).as_slice() => {}
                    _ => return Err(("corrupt/collateral".into(), format!("an unaltered record of {} B does not read back after restart next to an altered one", it.size))),
                }
            }
        }
        sh.add("restart_with_index_probes", 1);
        s.close().await.map_err(|e| ("corrupt/close".to_string(), format!("{:#}", e)))?;
    }
    // (2) index removed + validation on: quarantine, intact
    {
        let _ = std::fs::remove_file(dir.join("t.0.index"));
        let mut c2 = cfg.clone();
        c2.validate_data = true;
        let mut s: Storage<ArrayKey<N>> = builder_for(&c2, dir).build().map_err(|e| ("corrupt/build".to_string(), format!("{:#}", e)))?;
        s.init().await.map_err(|e| ("corrupt/restart-init-validate".to_string(), format!("init failed instead of quarantining: {:#}", e)))?;
        let cnt = s.corrupted_blobs_count();
        let q = dir.join("corrupted").join("t.0.blob");
        let qbytes = std::fs::read(&q).ok();
        let key = ArrayKey::<N>::from(items[victim].key.clone());
        let served = matches!(s.read(&key).await, Ok(ReadResult::Found(_)));
        s.close().await.map_err(|e| ("corrupt/close".to_string(), format!("{:#}", e)))?;
        if served {
            return Err(("corrupt/served/read/after-regen-validate".into(), "altered record served after index regeneration with data validation".into()));
        }
        if cnt != 1 || qbytes.as_deref() != Some(altered.as_slice()) {
            return Err(("corrupt/not-quarantined".into(), format!("blob with an altered data byte, index removed, validation on: corrupted_blobs_count() = {}, quarantined file intact: {}", cnt, qbytes.as_deref() == Some(altered.as_slice()))));
        }
        sh.add("restart_quarantine_probes", 1);
    }
    Ok(())
}

fn run_part<const N: usize>(ctx: &Ctx, sh: &mut Shard, rng: &mut Rng, part: u64) {
    let mut cfg = Cfg::default_for(8, 3);
    cfg.keylen = N;
    cfg.key_salt = rng.next();
    cfg.mt = part % 3 != 0;
    cfg.bloom = (part % 2) as u8;
    cfg.allow_dup = true;
    // half of the cases regenerate the index with data validation on: unaltered data of every size (also
    // values shorter than a record header, empty values and markers) must survive it - the positive control of
    // the corruption half
    cfg.validate_data = (part / 3) % 2 == 1;
    sh.add(if cfg.validate_data { "cases_data_validation_on" } else { "cases_data_validation_off" }, 1);
    let case_seed = rng.next();
    // round trip
    let dir = new_dir("c05r-");
    let mut local = Shard::default();
    let mut crng = Rng::new(case_seed);
    let r = block_on_catch(cfg.mt, roundtrip_case::<N>(&cfg, &dir, &mut crng, part, &mut local));
    rm_dir(&dir);
    for (k, v) in local.counters {
        if k.starts_with("max_") { sh.max(&k, v) } else { sh.add(&k, v) }
    }
    sh.evaluations += 1;
    sh.set_insert("threshold_window_offset_x_keylen", (part % 65) * 100 + N as u64);
    sh.add(if cfg.mt { "cases_multi_thread" } else { "cases_current_thread" }, 1);
    let replay = json!({"check": "c05-roundtrip", "keylen": N, "part": part, "case_seed": case_seed, "cfg": cfg.to_json()});
    match r {
        Ok(Ok(big)) => {
            if big {
                sh.nontrivial.insert(fnv(format!("rt{}-{}-{}", N, part, case_seed).as_bytes()));
            }
            if sh.samples.is_empty() {
                sh.sample(json!({"kind": "roundtrip", "keylen": N, "window_offset": (part % 65) as i64 - 32, "runtime": if cfg.mt { "multi-thread" } else { "current-thread" }}));
            }
        }
        Ok(Err((sig, d))) => sh.violation(&ctx.known, "C05", ctx.seed, &format!("C05/{}", sig), &d, replay),
        Err(p) => sh.violation(&ctx.known, "C05", ctx.seed, "C05/roundtrip/panic", &p, replay),
    }
    // corruption
    let dir = new_dir("c05c-");
    let mut local = Shard::default();
    let case_seed = rng.next();
    let mut crng = Rng::new(case_seed);
    let r = block_on_catch(cfg.mt, corruption_case::<N>(&cfg, &dir, &mut crng, &mut local));
    rm_dir(&dir);
    for (k, v) in local.counters {
        sh.add(&k, v);
    }
    sh.evaluations += 1;
    let replay = json!({"check": "c05-corruption", "keylen": N, "case_seed": case_seed, "cfg": cfg.to_json()});
    match r {
        Ok(Ok(())) => {
            sh.nontrivial.insert(fnv(format!("co{}-{}", N, case_seed).as_bytes()));
        }
        Ok(Err((sig, d))) => sh.violation(&ctx.known, "C05", ctx.seed, &format!("C05/{}", sig), &d, replay),
        Err(p) => sh.violation(&ctx.known, "C05", ctx.seed, "C05/corruption/panic", &p, replay),
    }
}

pub fn shard(ctx: &Ctx) -> Shard {
    let mut sh = Shard::default();
    let mut rng = Rng::new(ctx.shard_seed());
    // the 65 window offsets are spread over the shards; every shard walks its residue class repeatedly
    let mut part = ctx.shard as u64;
    let mut rounds = 0u64;
    while ctx.time_left() {
        match part % 3 {
            0 => run_part::<8>(ctx, &mut sh, &mut rng, part),
            1 => run_part::<4>(ctx, &mut sh, &mut rng, part),
            _ => run_part::<32>(ctx, &mut sh, &mut rng, part),
        }
        part += ctx.shards as u64 + 1; // co-prime walk over offsets, key lengths and runtimes
        rounds += 1;
    }
    sh.add("parts", rounds);
    sh
}
