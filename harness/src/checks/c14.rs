//! C14 - cancellation safety: a dropped operation future leaves a consistent storage.

use crate::drive::{apply_to_model, meta_of, value_bytes, Cfg, Driver, Mismatch, S_ALL_QUERIES};
use crate::evidence::{Meta, Shard};
use crate::model::Model;
use crate::ops::Op;
use crate::parse;
use crate::rng::{fnv, Rng};
use crate::runner::{block_on_catch, new_dir, rm_dir, Ctx, Plan};
use bytes::Bytes;
use futures::task::ArcWake;
use pearl::verif::tap;
use pearl::{BlobRecordTimestamp, BloomProvider};
use serde_json::json;
use std::future::Future;
use std::sync::atomic::{AtomicUsize, Ordering};
use std::sync::Arc;
use std::task::{Context, Poll};
use std::time::Duration;

pub fn plan() -> Plan {
    Plan {
        meta: Meta {
            property: "C14",
            level: "fault_enumeration",
            rule: "for every operation kind (write small / two-buffer / >80 KiB, write_with, write that must create the active blob, delete always / only-if-presented into the active blob, into a closed on-disk-indexed blob, delete that must create the active blob, read, read_all, contains, try_close / try_create / try_restore_active_blob, force_update, fsyncdata, free_excess_resources, offload_buffer, Storage::close) x runtime flavour {multi-thread, current-thread} x active blob {fresh, reopened} x k = 1,2,.. : the operation's future is polled under a counting waker (re-polled only when woken) and dropped at its k-th Pending, for every k until it completes. Continuation A waits until the H1 in-flight I/O counter is 0; continuation B immediately issues the next write while the detached blocking closure of the cancelled operation is delayed by an H1 failpoint. Oracle: the model with the cancelled operation as 'maybe': the whole query surface must equal either 'applied' or 'not applied' as a whole, and may change from not-applied to applied only at a restart; all other acknowledged data reads back; 10 further random operations succeed and agree with the model; after close + reopen (index kept, then index removed) the surface still matches, every blob file parses completely with the independent parser (contiguous records, valid checksums, blob_offset == position) and corrupted_blobs_count is 0. Plus 'cancel, then close at once': an operation that must create the active blob is dropped while the new blob's header write is held by a failpoint, close() is called immediately and an image of the directory taken when it returns must contain no blob file without a header and must open without quarantining anything. Non-trivial = a case in which the future was actually dropped at a suspension point; distinct = (kind, flavour, blob state, k, continuation).",
            assumptions: vec!["suspension points are those the runtime actually produces on this machine for the given flavour", "verdict holds for the cases enumerated"],
        },
        shards: 16,
        soft_s: (28, 420),
        exhaustive: None,
        min_evaluations: 100,
        extra: None,
    }
}

struct CountWaker {
    wakes: AtomicUsize,
    notify: tokio::sync::Notify,
}

impl ArcWake for CountWaker {
    fn wake_by_ref(a: &Arc<Self>) {
        a.wakes.fetch_add(1, Ordering::SeqCst);
        a.notify.notify_one();
    }
}

enum Polled<T> {
    Done(T, usize),
    Dropped,
}

/// polls `fut`, re-polling only after a wake, and drops it at its `k`-th Pending
async fn poll_then_drop<F: Future>(fut: F, k: usize) -> Polled<F::Output> {
    let mut fut = Box::pin(fut);
    let cw = Arc::new(CountWaker { wakes: AtomicUsize::new(0), notify: tokio::sync::Notify::new() });
    let waker = futures::task::waker(cw.clone());
    let mut cx = Context::from_waker(&waker);
    let mut pend = 0usize;
    loop {
        match fut.as_mut().poll(&mut cx) {
            Poll::Ready(v) => return Polled::Done(v, pend),
            Poll::Pending => {
                pend += 1;
                if pend == k {
                    drop(fut);
                    return Polled::Dropped;
                }
                let _ = tokio::time::timeout(Duration::from_secs(5), cw.notify.notified()).await;
            }
        }
    }
}

fn copy_dir(from: &std::path::Path, to: &std::path::Path) {
    let _ = std::fs::create_dir_all(to);
    if let Ok(rd) = std::fs::read_dir(from) {
        for e in rd.flatten() {
            let p = e.path();
            if p.is_file() {
                let _ = std::fs::copy(&p, to.join(e.file_name()));
            } else if p.is_dir() {
                copy_dir(&p, &to.join(e.file_name()));
            }
        }
    }
}

/// Cancel, then shut down at once: an operation that has to create the active blob is dropped at its k-th suspension
/// point while the header write of the new blob file is held by a failpoint; `close()` is called immediately and an
/// image of the directory is taken the moment it returns (the state a process exit right after close() leaves).
/// Every blob file of the image must parse: the image is opened and must not quarantine anything.
async fn cancel_then_close(dir: std::path::PathBuf, image: std::path::PathBuf, cfg: Cfg, which: u8, k: usize, delay_ms: u64) -> Result<bool, (String, String)> {
    use pearl::{ArrayKey, Storage};
    let mut s: Storage<ArrayKey<8>> = crate::drive::builder_for(&cfg, &dir).build().map_err(|e| ("cancel-close/build".to_string(), format!("{:#}", e)))?;
    s.init().await.map_err(|e| ("cancel-close/init".to_string(), format!("{:#}", e)))?;
    let key = ArrayKey::<8>::from(crate::drive::key_bytes(cfg.key_salt, 1, 8));
    s.write(&key, Bytes::from(value_bytes(77, 20)), BlobRecordTimestamp::new(1)).await.map_err(|e| ("cancel-close/write".to_string(), format!("{:#}", e)))?;
    s.try_close_active_blob().await.map_err(|e| ("cancel-close/close-active".to_string(), format!("{:#}", e)))?;
    s.verif_barrier(true).await;
    tap::arm(&dir, false, false);
    tap::set_faults(&dir, vec![tap::Fault { kinds: vec![tap::Kind::Write], suffix: ".blob".into(), nth: 0, sticky: false, action: tap::Action::Delay(delay_ms) }]);
    let dropped = {
        let sref = &s;
        let polled = match which {
            0 => poll_then_drop(async { sref.write(&key, Bytes::from(value_bytes(78, 20)), BlobRecordTimestamp::new(2)).await.map(|_| ()).map_err(|e| format!("{:#}", e)) }, k).await,
            1 => poll_then_drop(async { sref.delete(&key, BlobRecordTimestamp::new(2), false).await.map(|_| ()).map_err(|e| format!("{:#}", e)) }, k).await,
            _ => poll_then_drop(async { sref.try_create_active_blob().await.map_err(|e| format!("{:#}", e)) }, k).await,
        };
        matches!(polled, Polled::Dropped)
    };
    let r = s.close().await;
    copy_dir(&dir, &image);
    // let the detached remainder finish before the directories are removed
    for _ in 0..200 {
        if tap::inflight() == 0 {
            break;
        }
        tokio::time::sleep(Duration::from_millis(5)).await;
    }
    let _ = tap::disarm(&dir);
    r.map_err(|e| ("cancel-close/close-failed".to_string(), format!("{:#}", e)))?;
    for id in crate::drive::dir_ids(&image) {
        let len = std::fs::metadata(image.join(format!("t.{}.blob", id))).map(|m| m.len()).unwrap_or(0);
        if len < 20 {
            return Err(("cancel-then-close/blob-without-header-after-close".into(), format!("the operation was dropped at suspension point {} (blob header write held for {} ms) and close() was called at once: when close() returned, t.{}.blob had {} bytes - a process exit now leaves a blob that the next start quarantines as corrupted", k, delay_ms, id, len)));
        }
    }
    let mut s2: Storage<ArrayKey<8>> = crate::drive::builder_for(&cfg, &image).build().map_err(|e| ("cancel-close/build".to_string(), format!("{:#}", e)))?;
    s2.init().await.map_err(|e| ("cancel-then-close/init-failed-on-image".to_string(), format!("{:#}", e)))?;
    let corrupted = s2.corrupted_blobs_count();
    let _ = s2.close().await;
    if corrupted > 0 {
        return Err(("cancel-then-close/blob-quarantined".into(), format!("image taken when close() returned: {} blob(s) quarantined at the next start", corrupted)));
    }
    Ok(dropped)
}

#[derive(Clone, Copy, Debug, PartialEq, Eq)]
enum Kind {
    WriteSmall,
    WriteDouble,
    WriteBig,
    WriteWith,
    WriteNoActive,
    DelActive,
    DelOnlyIfActive,
    DelClosed,
    DelNoActive,
    Read,
    ReadAll,
    Contains,
    CloseActive,
    CreateActive,
    RestoreActive,
    ForceUpdate,
    Fsync,
    FreeExcess,
    Offload,
    StorageClose,
}

const KINDS: [Kind; 20] = [
    Kind::WriteSmall, Kind::WriteDouble, Kind::WriteBig, Kind::WriteWith, Kind::WriteNoActive, Kind::DelActive, Kind::DelOnlyIfActive,
    Kind::DelClosed, Kind::DelNoActive, Kind::Read, Kind::ReadAll, Kind::Contains, Kind::CloseActive, Kind::CreateActive,
    Kind::RestoreActive, Kind::ForceUpdate, Kind::Fsync, Kind::FreeExcess, Kind::Offload, Kind::StorageClose,
];

impl Kind {
    fn needs_no_active(&self) -> bool {
        matches!(self, Kind::WriteNoActive | Kind::DelNoActive | Kind::CreateActive | Kind::RestoreActive)
    }
    /// the equivalent model operation (None = no effect on the model)
    fn op(&self) -> Option<Op> {
        Some(match self {
            Kind::WriteSmall => Op::Put { k: 1, ts: 5, meta: None, size: 24 },
            Kind::WriteDouble => Op::Put { k: 1, ts: 5, meta: None, size: 5000 },
            Kind::WriteBig => Op::Put { k: 1, ts: 5, meta: None, size: 100_000 },
            Kind::WriteWith => Op::Put { k: 1, ts: 5, meta: Some(1), size: 30 },
            Kind::WriteNoActive => Op::Put { k: 1, ts: 5, meta: None, size: 24 },
            Kind::DelActive => Op::Del { k: 2, ts: 5, meta: None, only_if: false },
            Kind::DelOnlyIfActive => Op::Del { k: 0, ts: 5, meta: None, only_if: true },
            Kind::DelClosed => Op::Del { k: 2, ts: 5, meta: None, only_if: true },
            Kind::DelNoActive => Op::Del { k: 2, ts: 5, meta: None, only_if: false },
            Kind::CloseActive => Op::Close,
            Kind::CreateActive => Op::Create,
            Kind::RestoreActive => Op::Restore,
            Kind::ForceUpdate => Op::ForceUpdate { pred: true },
            _ => return None,
        })
    }
}

/// copies the placement (blob ids, active, closed, next id) of `from` into `m`, keeping m's records
fn sync_placement(m: &mut Model, from: &Model) {
    for id in from.blobs.keys() {
        m.blobs.entry(*id).or_default();
    }
    let keep: Vec<usize> = m.blobs.keys().copied().filter(|id| from.blobs.contains_key(id) || !m.blobs[id].is_empty()).collect();
    m.blobs.retain(|id, _| keep.contains(id));
    m.active = from.active;
    m.closed = from.closed.clone();
    m.next_id = from.next_id;
    m.relaxed = true;
}

struct CaseOut {
    violation: Option<(String, String)>,
    dropped: bool,
    pendings: usize,
    outcome: &'static str,
    compared: u64,
}

/// Which blobs hold the deletion marker (timestamp 5) of a cancelled delete: closed blobs at the time of
/// the call vs. the blob that was (or became) active. Part of the identity of the partial-delete finding.
fn marker_pattern(d: &Driver<8>, closed_at_cancel: &[usize], k: u16) -> &'static str {
    let key = crate::drive::key_bytes(d.cfg.key_salt, k, 8);
    let mut in_closed = 0usize;
    let mut in_active = 0usize;
    for id in d.dir_blob_ids() {
        if let Ok(bp) = crate::parse::parse_blob_file(&d.dir.join(format!("t.{}.blob", id))) {
            if bp.records.iter().any(|r| r.deleted() && r.ts == 5 && r.key == key) {
                if closed_at_cancel.contains(&id) {
                    in_closed += 1;
                } else {
                    in_active += 1;
                }
            }
        }
    }
    match (in_active > 0, in_closed > 0) {
        (true, false) => "active-marked-closed-not",
        (false, true) => "closed-marked-active-not",
        (true, true) => "active-and-some-closed-marked",
        (false, false) => "nothing-marked",
    }
}

fn mm(out: &mut CaseOut, stage: &str, m: Mismatch) {
    out.violation = Some((format!("{}/{}", stage, m.sig), m.detail));
}

/// compares the surface with either model; returns which one matched
async fn matches_either(d: &mut Driver<8>, applied: &Model, not: &Model, allow_applied: bool, allow_not: bool) -> Result<&'static str, Mismatch> {
    let mut first_err: Option<Mismatch> = None;
    if allow_not {
        d.model = not.clone();
        match d.check(S_ALL_QUERIES).await {
            Ok(()) => return Ok("not-applied"),
            Err(m) => first_err = Some(m),
        }
    }
    if allow_applied {
        d.model = applied.clone();
        match d.check(S_ALL_QUERIES).await {
            Ok(()) => return Ok("applied"),
            Err(m) => {
                if first_err.is_none() {
                    first_err = Some(m);
                }
            }
        }
    }
    Err(first_err.unwrap())
}

async fn run_case(d: &mut Driver<8>, kind: Kind, reopened: bool, k: usize, cont_b: bool, rng: &mut Rng) -> CaseOut {
    let mut out = CaseOut { violation: None, dropped: false, pendings: 0, outcome: "completed", compared: 0 };
    let dir = d.dir.clone();
    d.model.relaxed = true;
    macro_rules! bail {
        ($stage:expr, $m:expr) => {{
            mm(&mut out, $stage, $m);
            if let Some(s) = d.storage.take() {
                let _ = tokio::time::timeout(Duration::from_secs(5), s.close()).await;
            }
            let _ = tap::disarm(&dir);
            out.compared = d.stats.compared;
            return out;
        }};
    }
    // ---- base state: blob 0 closed with its index on disk, blob 1 active
    if let Err(m) = d.open(false).await {
        bail!("setup", m);
    }
    let base = [
        Op::Put { k: 0, ts: 1, meta: None, size: 20 },
        Op::Put { k: 1, ts: 1, meta: Some(1), size: 30 },
        Op::Put { k: 2, ts: 1, meta: None, size: 25 },
        Op::Close,
        Op::Create,
        Op::Dump,
        Op::Put { k: 0, ts: 2, meta: None, size: 22 },
        Op::Put { k: 3, ts: 2, meta: None, size: 4500 },
    ];
    for op in base.iter() {
        if let Err(m) = d.step(op).await {
            bail!("setup", m);
        }
    }
    if reopened {
        if let Err(m) = d.step(&Op::Restart { lazy: false, rm_idx: 0 }).await {
            bail!("setup", m);
        }
    }
    if kind.needs_no_active() {
        if let Err(m) = d.step(&Op::Close).await {
            bail!("setup", m);
        }
        if let Err(m) = d.step(&Op::Dump).await {
            bail!("setup", m);
        }
    }
    tap::arm(&dir, false, false);
    if cont_b {
        // the blocking closure of the cancelled operation is delayed so that the next operation overtakes it
        tap::set_faults(&dir, vec![tap::Fault { kinds: vec![tap::Kind::Write, tap::Kind::Sync, tap::Kind::Create], suffix: "".into(), nth: 0, sticky: false, action: tap::Action::Delay(25) }]);
    }
    // ---- the cancelled operation
    let closed_at_cancel: Vec<usize> = d.model.closed.clone();
    let not_model_at_cancel = d.model.clone();
    let mut not_model = d.model.clone();
    let mut applied_model = d.model.clone();
    let val = d.fresh_val();
    if let Some(op) = kind.op() {
        apply_to_model(&mut applied_model, &op, val);
    }
    let key1 = d.key(1);
    let key0 = d.key(0);
    let key2 = d.key(2);
    let mut storage_gone = false;
    let polled: Polled<Result<(), String>> = {
        let s = d.storage.as_ref().unwrap();
        match kind {
            Kind::WriteSmall | Kind::WriteDouble | Kind::WriteBig | Kind::WriteNoActive => {
                let size = match kind.op() {
                    Some(Op::Put { size, .. }) => size,
                    _ => 24,
                };
                let data = Bytes::from(value_bytes(val, size));
                let f = async { s.write(&key1, data, BlobRecordTimestamp::new(5)).await.map_err(|e| format!("{:#}", e)) };
                poll_then_drop(f, k).await
            }
            Kind::WriteWith => {
                let data = Bytes::from(value_bytes(val, 30));
                let f = async { s.write_with(&key1, data, BlobRecordTimestamp::new(5), meta_of(1)).await.map_err(|e| format!("{:#}", e)) };
                poll_then_drop(f, k).await
            }
            Kind::DelActive | Kind::DelNoActive => {
                let f = async { s.delete(&key2, BlobRecordTimestamp::new(5), false).await.map(|_| ()).map_err(|e| format!("{:#}", e)) };
                poll_then_drop(f, k).await
            }
            Kind::DelOnlyIfActive => {
                let f = async { s.delete(&key0, BlobRecordTimestamp::new(5), true).await.map(|_| ()).map_err(|e| format!("{:#}", e)) };
                poll_then_drop(f, k).await
            }
            Kind::DelClosed => {
                let f = async { s.delete(&key2, BlobRecordTimestamp::new(5), true).await.map(|_| ()).map_err(|e| format!("{:#}", e)) };
                poll_then_drop(f, k).await
            }
            Kind::Read => {
                let f = async { s.read(&key0).await.map(|_| ()).map_err(|e| format!("{:#}", e)) };
                poll_then_drop(f, k).await
            }
            Kind::ReadAll => {
                let f = async { s.read_all_with_deletion_marker(&key0).await.map(|_| ()).map_err(|e| format!("{:#}", e)) };
                poll_then_drop(f, k).await
            }
            Kind::Contains => {
                let f = async { s.contains(&key2).await.map(|_| ()).map_err(|e| format!("{:#}", e)) };
                poll_then_drop(f, k).await
            }
            Kind::CloseActive => poll_then_drop(async { s.try_close_active_blob().await.map_err(|e| format!("{:#}", e)) }, k).await,
            Kind::CreateActive => poll_then_drop(async { s.try_create_active_blob().await.map_err(|e| format!("{:#}", e)) }, k).await,
            Kind::RestoreActive => poll_then_drop(async { s.try_restore_active_blob().await.map_err(|e| format!("{:#}", e)) }, k).await,
            Kind::ForceUpdate => poll_then_drop(
                async {
                    s.force_update_active_blob(|_| true).await;
                    Ok(())
                },
                k,
            )
            .await,
            Kind::Fsync => poll_then_drop(async { s.fsyncdata().await.map_err(|e| e.to_string()) }, k).await,
            Kind::FreeExcess => poll_then_drop(
                async {
                    let _ = s.free_excess_resources().await;
                    Ok(())
                },
                k,
            )
            .await,
            Kind::Offload | Kind::StorageClose => Polled::Dropped, // handled below (need ownership / &mut)
        }
    };
    let polled = match kind {
        Kind::Offload => {
            let s = d.storage.as_mut().unwrap();
            poll_then_drop(
                async {
                    let _ = s.offload_buffer(usize::MAX, 2).await;
                    Ok(())
                },
                k,
            )
            .await
        }
        Kind::StorageClose => {
            let s = d.storage.take().unwrap();
            storage_gone = true;
            poll_then_drop(async { s.close().await.map_err(|e| format!("{:#}", e)) }, k).await
        }
        _ => polled,
    };
    match polled {
        Polled::Done(r, pend) => {
            out.pendings = pend;
            if let Err(e) = r {
                out.violation = Some(("operation-failed".into(), format!("{:?} failed without being cancelled: {}", kind, e)));
                if let Some(s) = d.storage.take() {
                    let _ = s.close().await;
                }
                let _ = tap::disarm(&dir);
                return out;
            }
        }
        Polled::Dropped => {
            out.dropped = true;
            out.pendings = k;
        }
    }
    // force update is only a request: it takes effect in the worker whether or not the caller was dropped
    let completed = !out.dropped;
    // ---- continuation
    let mut cont_b_val: Option<u64> = None;
    if cont_b && !storage_gone {
        // next write overtakes the delayed closure
        let s = d.storage.as_ref().unwrap();
        let v2 = 0x00C1_4000_0000 | k as u64;
        let r = s.write(&d.key(3), Bytes::from(value_bytes(v2, 40)), BlobRecordTimestamp::new(7)).await;
        if let Err(e) = r {
            out.violation = Some(("next-write-failed".into(), format!("the write issued right after dropping {:?} at its {}-th suspension point failed: {:#}", kind, k, e)));
        }
        cont_b_val = Some(v2);
    }
    tap::clear_faults(&dir);
    // wait for detached closures
    let t0 = std::time::Instant::now();
    while tap::inflight() > 0 && t0.elapsed() < Duration::from_secs(5) {
        tokio::time::sleep(Duration::from_millis(1)).await;
    }
    if out.violation.is_some() {
        if let Some(s) = d.storage.take() {
            let _ = s.close().await;
        }
        let _ = tap::disarm(&dir);
        return out;
    }
    if storage_gone {
        // Storage::close dropped mid-way (or completed): reopen and compare
        d.model = not_model.clone();
        d.model.restart(false);
        if let Err(m) = d.open(false).await {
            bail!("reopen-after-cancelled-close", m);
        }
        if let Err(m) = d.check(S_ALL_QUERIES).await {
            bail!("after-cancelled-close", m);
        }
        out.outcome = if completed { "completed" } else { "close-cancelled" };
    } else {
        if let Some(s) = d.storage.as_ref() {
            if !s.verif_barrier(true).await {
                out.violation = Some(("worker-dead".into(), format!("worker died after cancelling {:?}", kind)));
                let _ = tap::disarm(&dir);
                return out;
            }
        }
        // Placement (which blob is active, which are closed, ids consumed) is re-read from the storage for
        // both candidates: a cancelled operation may have created the active blob lazily, or left an
        // unregistered (header-only) blob behind; neither is an effect on the data.
        if out.dropped || cont_b_val.is_some() {
            d.model = not_model.clone();
            d.resync_lifecycle().await;
            not_model = d.model.clone();
            sync_placement(&mut applied_model, &not_model);
        }
        if let Some(v2) = cont_b_val {
            let op2 = Op::Put { k: 3, ts: 7, meta: None, size: 40 };
            apply_to_model(&mut applied_model, &op2, v2);
            apply_to_model(&mut not_model, &op2, v2);
        }
        let which = match matches_either(d, &applied_model, &not_model, true, !completed || kind.op().is_none()).await {
            Ok(w) => w,
            Err(m) => {
                let stage = if completed { "after-completed-op" } else { "after-cancel" };
                bail!(stage, m);
            }
        };
        out.outcome = if completed { "completed" } else if which == "applied" { "cancelled-but-applied" } else { "cancelled-not-applied" };
        // keep both candidates in step with the following operations
        let mut other = if which == "applied" { not_model.clone() } else { applied_model.clone() };
        // ---- 10 further operations
        for i in 0..10u64 {
            let op = match rng.below(6) {
                0 | 1 => Op::Put { k: rng.below(4) as u16, ts: 10 + i, meta: None, size: rng.range(8, 60) as u32 },
                2 => Op::Del { k: rng.below(4) as u16, ts: 10 + i, meta: None, only_if: rng.chance(1, 2) },
                3 => Op::Dump,
                4 => {
                    if d.model.active.is_some() {
                        Op::Close
                    } else {
                        Op::Create
                    }
                }
                _ => Op::Put { k: rng.below(4) as u16, ts: 10 + i, meta: Some(1), size: 5000 },
            };
            let v = d.peek_val();
            apply_to_model(&mut other, &op, v);
            if let Err(mut m) = d.step(&op).await {
                if m.sig.starts_with("delete-count") {
                    let dk = match kind.op() {
                        Some(Op::Del { k, .. }) => k,
                        _ => 2,
                    };
                    m.sig = format!("{}/{}", m.sig, marker_pattern(d, &closed_at_cancel, dk));
                }
                bail!("further-ops", m);
            }
            if let Err(m) = d.check(S_ALL_QUERIES).await {
                bail!("further-ops", m);
            }
        }
        // ---- a cancelled delete takes effect entirely or not at all: the blob files show directly which of the
        // blobs it had to mark hold its marker (timestamp 5). No operation is in flight any more at this point
        if out.dropped {
            if let Some(Op::Del { k: dk, only_if, .. }) = kind.op() {
                let key = crate::drive::key_bytes(d.cfg.key_salt, dk, 8);
                let has_marker = |id: usize| crate::parse::parse_blob_file(&d.dir.join(format!("t.{}.blob", id))).map(|bp| bp.records.iter().any(|r| r.deleted() && r.ts == 5 && r.key == key)).unwrap_or(false);
                let closed_due: Vec<usize> = closed_at_cancel.iter().copied().filter(|c| not_model_at_cancel.blob_live(*c, dk)).collect();
                let closed_marked = closed_due.iter().filter(|c| has_marker(**c)).count();
                let active_ids: Vec<usize> = d.dir_blob_ids().into_iter().filter(|id| !closed_at_cancel.contains(id)).collect();
                let active_marked = active_ids.iter().any(|id| has_marker(*id));
                let active_due = !only_if || not_model_at_cancel.active.map(|a| not_model_at_cancel.blob_live(a, dk)).unwrap_or(false);
                let all = closed_marked == closed_due.len() && (active_marked || !active_due);
                let none = closed_marked == 0 && !active_marked;
                if !all && !none {
                    let pattern = marker_pattern(d, &closed_at_cancel, dk);
                    out.violation = Some((format!("cancelled-delete-partial/{}", pattern), format!("the cancelled delete of k{} marked {} of the {} closed blobs in which the key is live; active blob marked: {} (due: {})", dk, closed_marked, closed_due.len(), active_marked, active_due)));
                    if let Some(s) = d.storage.take() {
                        let _ = tokio::time::timeout(Duration::from_secs(5), s.close()).await;
                    }
                    let _ = tap::disarm(&dir);
                    out.compared = d.stats.compared;
                    return out;
                }
            }
        }
        // ---- restart, index kept: may stay, or switch from not-applied to applied
        if let Err(m) = d.close().await {
            bail!("close", m);
        }
        let (mut a, mut n) = if which == "applied" { (d.model.clone(), other.clone()) } else { (other.clone(), d.model.clone()) };
        a.restart(false);
        n.restart(false);
        if let Err(m) = d.open(false).await {
            bail!("reopen", m);
        }
        let allow_not = which != "applied";
        let which2 = match matches_either(d, &a, &n, true, allow_not).await {
            Ok(w) => w,
            Err(m) => bail!("after-restart", m),
        };
        if let Err(m) = d.close().await {
            bail!("close", m);
        }
        // ---- restart with all index files removed
        for id in crate::drive::dir_ids(&dir) {
            let _ = std::fs::remove_file(dir.join(format!("t.{}.index", id)));
        }
        if let Err(m) = d.open(false).await {
            bail!("reopen-without-indexes", m);
        }
        let allow_not = which2 != "applied";
        if let Err(m) = matches_either(d, &a, &n, true, allow_not).await {
            bail!("after-restart-without-indexes", m);
        }
        if which2 == "not-applied" && out.outcome == "cancelled-not-applied" {
            // stays not applied or becomes applied after regeneration: both fine
        }
    }
    let corrupted = d.st().corrupted_blobs_count();
    if let Err(m) = d.close().await {
        bail!("close", m);
    }
    let _ = tap::disarm(&dir);
    if corrupted != 0 || dir.join("corrupted").exists() {
        out.violation = Some(("blob-quarantined-after-cancel".into(), format!("after cancelling {:?} at suspension point {} (continuation {}), a restart quarantined {} blob(s)", kind, k, if cont_b { "B" } else { "A" }, corrupted)));
        return out;
    }
    for id in crate::drive::dir_ids(&dir) {
        let p = dir.join(format!("t.{}.blob", id));
        match parse::parse_blob_file(&p) {
            Ok(bp) if bp.complete_and_sound() => {}
            Ok(bp) => {
                let cls = if bp.len < 20 { "shorter-than-header" } else { "unsound-records" };
                out.violation = Some((format!("blob-does-not-parse/{}", cls), format!("after cancelling {:?} at suspension point {}: {} does not parse completely: len {} end {} error {:?}", kind, k, p.display(), bp.len, bp.end, bp.error)));
                return out;
            }
            Err(e) => {
                out.violation = Some(("blob-unreadable".into(), e.to_string()));
                return out;
            }
        }
    }
    out.compared = d.stats.compared;
    out
}

pub fn shard(ctx: &Ctx) -> Shard {
    let mut sh = Shard::default();
    let mut rng = Rng::new(ctx.shard_seed());
    // enumerate (kind, flavour, reopened, continuation); k grows until the operation completes
    let mut combos: Vec<(Kind, bool, bool, bool)> = Vec::new();
    for kind in KINDS {
        for mt in [true, false] {
            for reopened in [false, true] {
                for cont_b in [false, true] {
                    // requests that are only forwarded to the worker have no suspension point of their own
                    if cont_b && matches!(kind, Kind::ForceUpdate | Kind::FreeExcess | Kind::Offload) {
                        continue;
                    }
                    combos.push((kind, mt, reopened, cont_b));
                }
            }
        }
    }
    let mut round = 0u64;
    loop {
        for (ci, (kind, mt, reopened, cont_b)) in combos.iter().enumerate() {
            if ci % ctx.shards != ctx.shard {
                continue;
            }
            let mut k = 1usize;
            loop {
                if !ctx.time_left() {
                    sh.add("rounds_completed", round);
                    return sh;
                }
                let mut cfg = Cfg::default_for(4, 1);
                cfg.mt = *mt;
                cfg.key_salt = rng.next();
                cfg.bloom = (round % 2) as u8;
                let dir = new_dir("c14-");
                let mut d: Driver<8> = Driver::new(dir.clone(), cfg.clone(), (round << 8) | ci as u64);
                let case_seed = rng.next();
                let mut crng = Rng::new(case_seed);
                let r = block_on_catch(cfg.mt, run_case(&mut d, *kind, *reopened, k, *cont_b, &mut crng));
                rm_dir(&dir);
                sh.evaluations += 1;
                let tag = format!("{:?}/{}/{}/k{}/{}", kind, if *mt { "mt" } else { "ct" }, if *reopened { "reopened" } else { "fresh" }, k, if *cont_b { "B" } else { "A" });
                let replay = json!({"check": "c14", "kind": format!("{:?}", kind), "mt": mt, "reopened": reopened, "k": k, "continuation": if *cont_b { "B" } else { "A" }, "case_seed": case_seed});
                let mut stop = true;
                match r {
                    Ok(out) => {
                        sh.add("queries_compared", out.compared);
                        if out.dropped {
                            sh.add("futures_dropped_at_a_suspension_point", 1);
                            sh.add(&format!("outcome_{}", out.outcome), 1);
                            sh.nontrivial.insert(fnv(tag.as_bytes()));
                            sh.set_insert("suspension_points", fnv(format!("{:?}/{}/{}/{}", kind, mt, reopened, k).as_bytes()));
                            stop = false;
                            if sh.samples.len() < 3 && out.outcome != "cancelled-not-applied" {
                                sh.sample(json!({"case": tag, "outcome": out.outcome}));
                            }
                        } else {
                            sh.max(&format!("max_suspension_points_{:?}_{}", kind, if *mt { "mt" } else { "ct" }), out.pendings as u64);
                        }
                        if std::env::var("PV_DEBUG_C14").is_ok() && matches!(kind, Kind::DelActive | Kind::DelOnlyIfActive | Kind::DelClosed | Kind::DelNoActive) {
                            eprintln!("[c14] {} dropped={} outcome={} violation={:?}", tag, out.dropped, out.outcome, out.violation.as_ref().map(|v| v.0.clone()));
                        }
                        if let Some((sig, detail)) = out.violation {
                            let is_del = matches!(kind, Kind::DelActive | Kind::DelOnlyIfActive | Kind::DelClosed | Kind::DelNoActive);
                            let (sig, detail) = if is_del && out.dropped && sig.starts_with("cancelled-delete-partial/") {
                                (format!("cancelled-delete-applied-to-a-subset-of-blobs/{}", sig.rsplit('/').next().unwrap_or("")), detail)
                            } else if is_del && out.dropped && sig.starts_with("further-ops/delete-count") {
                                // the direction is part of the identity: on this tree the marker of the active blob is written
                                // first, so a half-applied delete leaves closed blobs unmarked ("more" blobs marked later than
                                // the not-applied model... or "fewer" than the applied one); another order of the steps would
                                // show up under another signature
                                (format!("cancelled-delete-applied-to-a-subset-of-blobs/{}", sig.rsplit('/').next().unwrap_or("")), format!("a later delete of the same key marks a different number of blobs than after a complete or absent delete ({})", detail))
                            } else {
                                (sig, detail)
                            };
                            let scen = if sig.starts_with("cancelled-delete") { format!("{:?}", kind) } else { format!("{:?}/{}", kind, if out.dropped { format!("dropped@{}", k) } else { "completed".into() }) };
                            sh.violation(&ctx.known, "C14", ctx.seed, &format!("C14/{}/{}", sig, scen), &format!("{}: {}", tag, detail), replay);
                        }
                    }
                    Err(p) => {
                        let short: String = p.chars().take(100).collect();
                        sh.violation(&ctx.known, "C14", ctx.seed, &format!("C14/panic/{:?}", kind), &format!("{}: panic {}", tag, short), replay);
                    }
                }
                if stop || k >= 12 {
                    break;
                }
                k += 1;
            }
        }
        // cancel-then-close scenario, once per round and shard
        {
            let mut cfg = Cfg::default_for(4, 1);
            cfg.mt = round % 2 == 0;
            cfg.key_salt = rng.next();
            let (which, k, delay) = ((rng.below(3)) as u8, rng.range(1, 3) as usize, rng.range(15, 40));
            let (dir, image) = (new_dir("c14c-"), new_dir("c14ci-"));
            let r = block_on_catch(cfg.mt, cancel_then_close(dir.clone(), image.clone(), cfg.clone(), which, k, delay));
            rm_dir(&dir);
            rm_dir(&image);
            sh.evaluations += 1;
            let replay = json!({"check": "c14-cancel-then-close", "cfg": cfg.to_json(), "which": which, "k": k, "delay_ms": delay});
            match r {
                Ok(Ok(dropped)) => {
                    sh.add("cancel_then_close_scenarios", 1);
                    if dropped {
                        sh.add("cancel_then_close_dropped", 1);
                    }
                }
                Ok(Err((sig, detail))) => sh.violation(&ctx.known, "C14", ctx.seed, &format!("C14/{}", sig), &detail, replay),
                Err(p) => sh.violation(&ctx.known, "C14", ctx.seed, "C14/cancel-then-close/panic", &p.chars().take(120).collect::<String>(), replay),
            }
        }
        round += 1;
        if round >= if ctx.thorough() { 1000 } else { 8 } {
            break;
        }
    }
    sh.add("rounds_completed", round);
    sh
}
