//! C06 - crash recovery: acknowledged records are served or recoverable, never wrong.
//! Monitor (a): power-loss states built from the I/O tap. Monitor (b): real SIGKILL of a child (c06_kill.rs).

use super::common::random_cfg;
use crate::drive::{Cfg, Driver, Mismatch, S_ALL_QUERIES};
use crate::evidence::{Meta, Shard};
use crate::model::{Model, Rec};
use crate::ops::{gen_history, history_json, history_short, Op, Profile};
use crate::parse;
use crate::rng::{fnv, Rng};
use crate::runner::{block_on_catch, new_dir, rm_dir, Ctx, Plan};
use crate::tap::{blob_id_of, ext_of, Trace};
use pearl::verif::tap;
use serde_json::{json, Value};
use std::collections::BTreeMap;
use std::path::{Path, PathBuf};

pub fn plan() -> Plan {
    Plan {
        meta: Meta {
            property: "C06",
            level: "fault_enumeration",
            rule: "(a) power-loss model: a history runs with the I/O tap recording every create/write(payload)/sync/rename/remove; for each crash point (after tap event i; quick: sampled incl. every event next to a sync/create, thorough: every event) directory states are built: each file = the bytes written up to i cut at a length L with synced_len <= L <= written_len; for one chosen file every interesting L of its un-synced tail (record/field boundaries +-1, random; thorough: every byte), the other files at {synced-only, full}. The REAL init runs on the installed state (data validation on/off, corrupted blobs ignored/quarantined). Oracle: init returns Ok and a following write+read works, and a process-kill image taken after that write (worker quiescent, nothing closed) opened elsewhere answers like the live session (always with ignore_corrupted, every third state otherwise); every blob whose file and index file were fully synced before i is served in full; for every other blob the served records are a prefix (length = its record count reported by the storage) of the records written to it before i, or the file sits byte-identical in corrupted/ (in place and unserved with ignore_corrupted); the whole query surface equals the reference model built from those per-blob prefixes, i.e. bytes are correct and nothing is served that was never written. (b) real SIGKILL of a child process doing a write-heavy history (see observed.kill_*): init Ok; every acknowledged record is served or is recovered by tools::recovery_blob from the quarantined file; writes made after recovery survive two further restarts. One cut in ten is additionally installed as a zero-filled tail (the file keeps its length, the lost suffix reads as zeros): for these states only 'init returns Ok' is judged; what is served afterwards is observed and counted in observations_zero_fill_*, not judged (the data clauses are quantified over truncation lengths). Non-trivial = crash state with a torn or missing un-synced suffix in at least one file, or a kill that landed mid-operation; distinct = hash(history, crash point, cuts).",
            assumptions: vec!["power-loss model: per-file suffix truncation beyond the last completed sync; directory operations (create, rename, remove) atomic and durable", "literal reading of the statement: any prefix is acceptable for a blob that was not fully synced", "verdict holds for the crash states generated for this seed"],
        },
        shards: 16,
        soft_s: (30, 600),
        exhaustive: None,
        min_evaluations: 200,
        extra: None,
    }
}

fn profile() -> Profile {
    Profile {
        n_keys: 4, ts_max: 4, n_meta: 1, len_min: 6, len_max: 18,
        w_put: 42, w_put_meta: 5, w_del: 14, w_del_meta: 1, w_burst: 0, w_rotate: 10,
        w_close: 2, w_create: 2, w_restore: 2, w_bg: 0, w_force: 4, w_dump: 7, w_dump_nowait: 2,
        w_offload: 0, w_fsync: 4, w_restart: 4, restart_rm_idx: true, big_values: false,
    }
}

struct Recording {
    trace: Trace,
    /// per blob id: (seq of the write event, record) in append order
    written: BTreeMap<usize, Vec<(u64, Rec)>>,
    all_seqs: Vec<u64>,
    sync_adjacent: Vec<u64>,
}

async fn record<const N: usize>(d: &mut Driver<N>, ops: &[Op]) -> Result<Recording, Mismatch> {
    let dir = d.dir.clone();
    tap::arm(&dir, true, false);
    let mut trace = Trace::new(false, false);
    trace.corrupted_dir = Some(dir.join("corrupted"));
    let mut written: BTreeMap<usize, Vec<(u64, Rec)>> = BTreeMap::new();
    let mut all_seqs = Vec::new();
    let mut sync_adjacent = Vec::new();
    let res: Result<(), Mismatch> = async {
        d.open(false).await?;
        let ev = tap::drain(&dir);
        for e in ev.iter() {
            all_seqs.push(e.seq);
        }
        trace.feed(&ev);
        for op in ops {
            let before: BTreeMap<usize, usize> = d.model.blobs.iter().map(|(k, v)| (*k, v.len())).collect();
            d.step(op).await?;
            if let Some(s) = d.storage.as_ref() {
                s.verif_barrier(true).await;
            }
            let ev = tap::drain(&dir);
            // map the model's new records of this step to the record writes observed on each blob file
            let mut per_blob: BTreeMap<usize, Vec<u64>> = BTreeMap::new();
            for (n, e) in ev.iter().enumerate() {
                all_seqs.push(e.seq);
                if matches!(e.kind, tap::Kind::Sync | tap::Kind::Create) {
                    sync_adjacent.push(e.seq);
                    if n > 0 {
                        sync_adjacent.push(ev[n - 1].seq);
                    }
                }
                if e.kind == tap::Kind::Write && e.ok && ext_of(&e.path) == "blob" && e.offset >= 20 {
                    if let Some(id) = blob_id_of(&e.path) {
                        per_blob.entry(id).or_default().push(e.seq);
                    }
                }
            }
            for (id, recs) in d.model.blobs.iter() {
                let from = before.get(id).copied().unwrap_or(0);
                let new = &recs[from.min(recs.len())..];
                let seqs = per_blob.get(id).cloned().unwrap_or_default();
                if new.len() != seqs.len() {
                    return Err(Mismatch { class: crate::drive::Class::DataOp, sig: "unmappable".into(), detail: format!("step {}: {} new model records in blob {} but {} record writes observed", d.step, new.len(), id, seqs.len()), step: d.step });
                }
                for (r, s) in new.iter().zip(seqs.iter()) {
                    written.entry(*id).or_default().push((*s, r.clone()));
                }
            }
            trace.feed(&ev);
        }
        d.close().await?;
        let ev = tap::drain(&dir);
        for e in ev.iter() {
            all_seqs.push(e.seq);
            if matches!(e.kind, tap::Kind::Sync | tap::Kind::Create) {
                sync_adjacent.push(e.seq);
            }
        }
        trace.feed(&ev);
        Ok(())
    }
    .await;
    let _ = tap::disarm(&dir);
    res?;
    Ok(Recording { trace, written, all_seqs, sync_adjacent })
}

#[derive(Clone, Debug)]
struct CrashState {
    point: u64,
    /// path -> installed length (None = full written length)
    cuts: BTreeMap<PathBuf, u64>,
    others_full: bool,
    /// the cut files keep their written length, the lost suffix reads as zeros (the file size reached the
    /// disk, the data blocks did not) instead of being absent
    zero_fill: bool,
}

fn install(rec: &Recording, base: &Path, target: &Path, cs: &CrashState) -> BTreeMap<PathBuf, Vec<u8>> {
    let mut installed = BTreeMap::new();
    for (p, fl) in rec.trace.files.iter() {
        if !fl.exists_at(cs.point) {
            continue;
        }
        if let Some((seq, _)) = fl.renamed_to.as_ref() {
            if *seq <= cs.point {
                continue;
            }
        }
        // a file that appears under a new name through a rename exists there only after the rename
        let rel = match p.strip_prefix(base) {
            Ok(r) => r.to_path_buf(),
            Err(_) => continue,
        };
        let content = fl.content_at(cs.point);
        let synced = fl.synced_at(cs.point).min(content.len() as u64);
        let l = match cs.cuts.get(p) {
            Some(l) => (*l).clamp(synced, content.len() as u64),
            None => {
                if cs.others_full {
                    content.len() as u64
                } else {
                    synced
                }
            }
        };
        let out = target.join(&rel);
        if let Some(parent) = out.parent() {
            let _ = std::fs::create_dir_all(parent);
        }
        let mut bytes = content[..l as usize].to_vec();
        if cs.zero_fill && cs.cuts.contains_key(p) {
            bytes.resize(content.len(), 0);
        }
        let _ = std::fs::write(&out, &bytes);
        installed.insert(out, bytes);
    }
    installed
}

struct CaseOut {
    violation: Option<(String, String)>,
    class: &'static str,
    compared: u64,
    second_kill: bool,
}

fn copy_dir(from: &Path, to: &Path) {
    let _ = std::fs::create_dir_all(to);
    if let Ok(rd) = std::fs::read_dir(from) {
        for e in rd.flatten() {
            let p = e.path();
            if p.is_file() {
                let _ = std::fs::copy(&p, to.join(e.file_name()));
            } else if p.is_dir() {
                copy_dir(&p, &to.join(e.file_name()));
            }
        }
    }
}

async fn check_state<const N: usize>(cfg: &Cfg, dir: &Path, rec: &Recording, cs: &CrashState, installed: &BTreeMap<PathBuf, Vec<u8>>, base: &Path, second_kill: bool) -> CaseOut {
    let mut out = CaseOut { violation: None, class: "clean", compared: 0, second_kill: false };
    let mut d: Driver<N> = Driver::new(dir.to_path_buf(), cfg.clone(), 0xC06);
    d.model.relaxed = true;
    tap::arm(dir, false, false);
    macro_rules! fail {
        ($sig:expr, $detail:expr) => {{
            out.violation = Some(($sig, $detail));
            if let Some(s) = d.storage.take() {
                let _ = tokio::time::timeout(std::time::Duration::from_secs(5), s.close()).await;
            }
            let _ = tap::disarm(dir);
            return out;
        }};
    }
    let blob_files: Vec<(usize, PathBuf)> = installed.keys().filter(|p| ext_of(p) == "blob" && p.parent() == Some(dir)).filter_map(|p| blob_id_of(p).map(|id| (id, p.clone()))).collect();
    if let Err(m) = d.open(false).await {
        let only_header_torn = blob_files.len() == 1 && installed[&blob_files[0].1].len() < 20;
        let sig = if cfg.ignore_corrupted && only_header_torn { "init-failed/ignore-corrupted/only-blob-torn-in-header" } else if cfg.ignore_corrupted { "init-failed/ignore-corrupted" } else { "init-failed" };
        fail!(sig.to_string(), format!("init failed on the crash state: {}", m.detail));
    }
    let det = d.st().records_count_detailed().await;
    let active = d.probe_active_id().await;
    let n_closed = if active.is_some() { det.len().saturating_sub(1) } else { det.len() };
    let closed: Vec<(usize, usize)> = det.iter().take(n_closed).cloned().collect();
    let active_count = if active.is_some() { det.last().map(|x| x.1) } else { None };
    let mut model = Model::new(true);
    model.relaxed = true;
    model.blobs.clear();
    model.active = None;
    model.closed.clear();
    let corrupted_dir = dir.join("corrupted");
    let mut torn_keys: std::collections::BTreeSet<u16> = Default::default();
    for (id, path) in blob_files.iter() {
        let served_count = if Some(*id) == active { active_count } else { closed.iter().find(|c| c.0 == *id).map(|c| c.1) };
        let orig_path = base.join(path.strip_prefix(dir).unwrap());
        let w: Vec<Rec> = rec.written.get(id).map(|v| v.iter().filter(|(s, _)| *s <= cs.point).map(|(_, r)| r.clone()).collect()).unwrap_or_default();
        match served_count {
            Some(c) => {
                if c > w.len() {
                    fail!("serves-more-than-written".to_string(), format!("blob {} reports {} records but only {} were written before the crash point", id, c, w.len()));
                }
                // fully synced blob + fully synced index => served in full
                let fl = rec.trace.files.get(&orig_path);
                let blob_full = fl.map(|f| f.synced_at(cs.point) >= f.content_at(cs.point).len() as u64).unwrap_or(false);
                let il = rec.trace.files.get(&orig_path.with_extension("index"));
                let idx_full = il.map(|f| f.exists_at(cs.point) && {
                    let c = f.content_at(cs.point);
                    c.len() > 83 && c[72] & 1 == 1 && f.synced_at(cs.point) >= c.len() as u64
                }).unwrap_or(false);
                if blob_full && idx_full && c != w.len() {
                    fail!("synced-blob-not-served-in-full".to_string(), format!("blob {} and its index were fully synced before the crash point but only {} of {} records are served", id, c, w.len()));
                }
                if c < w.len() {
                    out.class = "prefix";
                }
                // records whose header is on disk but whose meta/data is torn are indexed when data
                // validation is off; reading them must fail (an Err is "not served"), never return bytes
                let complete = parse::parse_blob(&installed[path]).records.iter().filter(|r| r.header_crc_ok).count();
                // since fix d09f8f0 a record whose meta/data is cut is not accepted by a regeneration (the blob is
                // quarantined): the storage must not count more records than are completely present in the file
                if c > complete && !cs.zero_fill {
                    fail!("torn-record-counted-as-served".to_string(), format!("blob {} reports {} records but only {} records are completely present in the file after the cut", id, c, complete));
                }
                for r in w[..c].iter().skip(complete) {
                    torn_keys.insert(r.key);
                }
                model.blobs.insert(*id, w[..c].to_vec());
                model.ids_ever.insert(*id);
            }
            None => {
                // not served: must be preserved byte-identical
                let expect = &installed[path];
                let q = corrupted_dir.join(path.file_name().unwrap());
                let preserved = if cfg.ignore_corrupted { std::fs::read(path).ok().as_deref() == Some(expect.as_slice()) } else { std::fs::read(&q).ok().as_deref() == Some(expect.as_slice()) };
                if !preserved {
                    fail!("unserved-blob-not-preserved".to_string(), format!("blob {} is not served after the crash and is not preserved byte-identical ({})", id, if cfg.ignore_corrupted { "in place" } else { "in corrupted/" }));
                }
                out.class = if cfg.ignore_corrupted { "ignored" } else { "quarantined" };
            }
        }
    }
    if let Some(a) = active {
        model.blobs.entry(a).or_default();
    }
    model.closed = closed.iter().map(|c| c.0).collect();
    for c in model.closed.clone() {
        model.blobs.entry(c).or_default();
    }
    model.active = active;
    model.next_id = d.st().next_blob_id();
    d.model = model;
    for k in torn_keys.iter() {
        // Err or exactly the model's answer; never other bytes
        let key = d.key(*k);
        if let Ok(pearl::ReadResult::Found(b)) = d.st().read(&key).await {
            let ok = match d.model.read(*k) {
                crate::model::MRead::Found(r) => b.as_ref() == crate::drive::value_bytes(r.val, r.size).as_slice(),
                _ => false,
            };
            if !ok {
                fail!("torn-record-served-with-wrong-bytes".to_string(), format!("read(k{}) returned bytes for a record whose data was torn by the crash", k));
            }
        }
        d.tainted.insert(*k);
        out.class = "torn-record-indexed";
    }
    if let Err(m) = d.check(S_ALL_QUERIES).await {
        fail!(format!("served-data-wrong/{}", m.sig), m.detail);
    }
    // usable: a write and a read
    for op in [Op::Put { k: 2, ts: 99, meta: None, size: 21 }, Op::Del { k: 3, ts: 99, meta: None, only_if: false }] {
        if let Err(m) = d.step(&op).await {
            fail!(format!("not-usable/{}", m.sig), format!("{} failed after recovery: {}", op.short(), m.detail));
        }
    }
    if let Err(m) = d.check(S_ALL_QUERIES).await {
        fail!(format!("not-usable/{}", m.sig), m.detail);
    }
    // "writes made after recovery survive further restarts": a process-kill image of the recovered directory
    // (worker quiescent, nothing closed) is opened elsewhere and must answer like the live session
    if second_kill {
        let _ = d.st().verif_barrier(true).await;
        let dir2 = dir.with_extension("k2");
        let _ = std::fs::remove_dir_all(&dir2);
        copy_dir(dir, &dir2);
        let mut d2: Driver<N> = Driver::new(dir2.clone(), cfg.clone(), 0xC06);
        d2.model = d.model.clone();
        d2.tainted = d.tainted.clone();
        let r = async {
            d2.open(false).await.map_err(|m| ("init-failed".to_string(), m.detail))?;
            d2.check(S_ALL_QUERIES).await.map_err(|m| (m.sig, m.detail))?;
            d2.close().await.map_err(|m| ("close-failed".to_string(), m.detail))?;
            Ok::<(), (String, String)>(())
        }
        .await;
        if let Some(s) = d2.storage.take() {
            let _ = tokio::time::timeout(std::time::Duration::from_secs(5), s.close()).await;
        }
        let _ = std::fs::remove_dir_all(&dir2);
        out.second_kill = true;
        if let Err((sig, detail)) = r {
            fail!(format!("second-kill-after-recovery/{}", sig), format!("after recovery, one put and one delete, and a second process kill: {}", detail));
        }
    }
    if let Err(m) = d.close().await {
        fail!("close-failed-after-recovery".to_string(), m.detail);
    }
    let _ = tap::disarm(dir);
    out.compared = d.stats.compared;
    out
}

fn interesting_lengths(content: &[u8], synced: u64, ext: &str, rng: &mut Rng, thorough: bool) -> Vec<u64> {
    let len = content.len() as u64;
    let mut v: std::collections::BTreeSet<u64> = Default::default();
    v.insert(synced);
    v.insert(len);
    if thorough && len - synced <= 4096 {
        for l in synced..=len {
            v.insert(l);
        }
        return v.into_iter().collect();
    }
    let mut add = |x: i64| {
        if x >= synced as i64 && x <= len as i64 {
            v.insert(x as u64);
        }
    };
    if ext == "blob" {
        let bp = parse::parse_blob(content);
        for r in bp.records.iter() {
            for b in [r.pos, r.pos + 8, r.pos + r.header_len - 4, r.pos + r.header_len, r.pos + r.header_len + r.meta_size, r.end()] {
                for d in [-1i64, 0, 1] {
                    add(b as i64 + d);
                }
            }
        }
        for b in [0i64, 1, 8, 19, 20, 21] {
            add(b);
        }
    } else {
        let ip = parse::parse_index(content);
        for (_, b) in ip.boundaries.iter() {
            for d in [-1i64, 0, 1] {
                add(*b as i64 + d);
            }
        }
        for b in [0i64, 1, 72, 73, 82, 83, 84] {
            add(b);
        }
    }
    for _ in 0..6 {
        if len > synced {
            let x = rng.range(synced, len);
            v.insert(x);
        }
    }
    v.into_iter().collect()
}

fn eval_history<const N: usize>(ctx: &Ctx, sh: &mut Shard, rng: &mut Rng, cfg: &Cfg, ops: &[Op], hid: u64) {
    let base = new_dir("c06b-");
    let mut d: Driver<N> = Driver::new(base.clone(), cfg.clone(), hid);
    let rec = match block_on_catch(cfg.mt, record(&mut d, ops)) {
        Ok(Ok(r)) => r,
        Ok(Err(m)) => {
            sh.add(if m.sig == "unmappable" { "histories_unmappable" } else { "desync_histories" }, 1);
            if let Some(s) = d.storage.take() {
                drop(s);
            }
            rm_dir(&base);
            return;
        }
        Err(p) => {
            sh.violation(&ctx.known, "C06", ctx.seed, "C06/panic-in-recorded-run", &p, json!({"check": "c06", "cfg": cfg.to_json(), "history": history_json(ops)}));
            rm_dir(&base);
            return;
        }
    };
    sh.add("recorded_histories", 1);
    sh.add("tap_events_recorded", rec.all_seqs.len() as u64);
    // crash points
    let mut points: Vec<u64> = if ctx.thorough() {
        rec.all_seqs.clone()
    } else {
        let mut p: std::collections::BTreeSet<u64> = rec.sync_adjacent.iter().copied().collect();
        let mut all = rec.all_seqs.clone();
        rng.shuffle(&mut all);
        for s in all.into_iter().take(40) {
            p.insert(s);
        }
        let mut v: Vec<u64> = p.into_iter().collect();
        rng.shuffle(&mut v);
        v.truncate(60);
        v
    };
    points.sort();
    let work = new_dir("c06w-");
    'outer: for point in points {
        // files with an un-synced tail at this point
        let mut tails: Vec<(PathBuf, Vec<u8>, u64)> = Vec::new();
        for (p, fl) in rec.trace.files.iter() {
            if !fl.exists_at(point) || fl.renamed_to.as_ref().map(|(s, _)| *s <= point).unwrap_or(false) {
                continue;
            }
            let c = fl.content_at(point);
            let s = fl.synced_at(point).min(c.len() as u64);
            if (c.len() as u64) > s {
                tails.push((p.clone(), c, s));
            }
        }
        let mut states: Vec<CrashState> = Vec::new();
        // extremes
        states.push(CrashState { point, cuts: BTreeMap::new(), others_full: true, zero_fill: false });
        states.push(CrashState { point, cuts: BTreeMap::new(), others_full: false, zero_fill: false });
        for (p, c, s) in tails.iter() {
            let lens = interesting_lengths(c, *s, ext_of(p), rng, ctx.thorough());
            let lens: Vec<u64> = if ctx.thorough() { lens } else {
                let mut l = lens;
                rng.shuffle(&mut l);
                l.truncate(10);
                l
            };
            for l in lens {
                for others_full in [true, false] {
                    let mut cuts = BTreeMap::new();
                    cuts.insert(p.clone(), l);
                    // one cut in ten also as a zero-filled tail: "init succeeds" is judged, the served data is only
                    // observed (see `observations_zero_fill_*`): the data clauses quantify over truncation lengths
                    let zero_fill = l < c.len() as u64 && rng.chance(1, 10);
                    if zero_fill {
                        states.push(CrashState { point, cuts: cuts.clone(), others_full, zero_fill: true });
                    }
                    states.push(CrashState { point, cuts, others_full, zero_fill: false });
                }
            }
        }
        // random independent cuts
        if ctx.thorough() && tails.len() > 1 {
            for _ in 0..8 {
                let mut cuts = BTreeMap::new();
                for (p, c, s) in tails.iter() {
                    cuts.insert(p.clone(), rng.range(*s, c.len() as u64));
                }
                states.push(CrashState { point, cuts, others_full: true, zero_fill: false });
            }
        }
        for (si, cs) in states.iter().enumerate() {
            if !ctx.time_left() {
                sh.add("states_skipped_time_budget", 1);
                break 'outer;
            }
            let _ = std::fs::remove_dir_all(&work);
            let _ = std::fs::create_dir_all(&work);
            let installed = install(&rec, &base, &work, cs);
            if installed.keys().all(|p| ext_of(p) != "blob") {
                continue;
            }
            let mut c2 = cfg.clone();
            c2.validate_data = si % 2 == 0;
            c2.ignore_corrupted = si % 5 == 4;
            let res = block_on_catch(c2.mt, check_state::<N>(&c2, &work, &rec, cs, &installed, &base, c2.ignore_corrupted || si % 3 == 0));
            sh.evaluations += 1;
            let torn = !cs.cuts.is_empty() || !cs.others_full;
            let cuts_desc: Vec<String> = cs.cuts.iter().map(|(p, l)| format!("{}@{}", p.file_name().unwrap().to_string_lossy(), l)).collect();
            if torn && !tails.is_empty() {
                sh.nontrivial.insert(fnv(format!("{}|{}|{:?}|{}", history_short(ops), point, cuts_desc, cs.others_full).as_bytes()));
            }
            sh.add(if c2.ignore_corrupted { "states_ignore_corrupted" } else { "states_quarantine_mode" }, 1);
            if cs.zero_fill {
                sh.add("states_zero_filled_tail", 1);
            }
            let replay: Value = json!({"check": "c06-powerloss", "cfg": c2.to_json(), "hist_id": hid, "history": history_json(ops), "short": history_short(ops), "crash_point": point, "cuts": cuts_desc, "others_full": cs.others_full, "zero_fill": cs.zero_fill});
            match res {
                Ok(out) => {
                    sh.add(&format!("init_outcome_{}", out.class), 1);
                    sh.add("queries_compared", out.compared);
                    if out.second_kill {
                        sh.add("second_kill_images_checked", 1);
                    }
                    if sh.samples.len() < 2 && torn && out.class != "clean" {
                        sh.sample(json!({"history": history_short(ops), "crash_after_event": point, "cuts": cuts_desc, "others": if cs.others_full { "full" } else { "synced-only" }, "outcome": out.class}));
                    }
                    if let Some((sig, detail)) = out.violation {
                        let zf_init_failed = cs.zero_fill && sig.starts_with("init-failed");
                        if zf_init_failed {
                            // "init succeeds" is judged for zero-filled tails too (a torn suffix in the wording of the
                            // statement). One class is a listed finding: a blob header whose magic reached the disk and
                            // whose version field reads as zeros looks like a blob of format version 0
                            let header_cut = cs.cuts.iter().next().map(|(p, l)| ext_of(p) == "blob" && *l >= 4 && *l < 20).unwrap_or(false);
                            let sig2 = if header_cut { "zero-filled-tail/init-failed/blob-header-magic-intact-version-zero" } else { "zero-filled-tail/init-failed" };
                            sh.violation(&ctx.known, "C06", ctx.seed, &format!("C06/{}", sig2), &format!("crash after event {} cuts {:?} (lost suffix zero-filled) others_full={}: {}", point, cuts_desc, cs.others_full, detail), replay);
                        } else if cs.zero_fill {
                            // the data clauses are quantified over truncation lengths: recorded as an observation only
                            let class = sig.split('/').next().unwrap_or("other").to_string();
                            sh.add(&format!("observations_zero_fill_{}", class), 1);
                            let region = cs.cuts.iter().next().map(|(p, l)| format!("{}{}", ext_of(p), if ext_of(p) == "blob" && *l < 20 { "-header" } else { "" })).unwrap_or_default();
                            sh.add(&format!("observations_zero_fill_{}_{}", class, region), 1);
                            if ctx.shard == 0 && sh.notes.len() < 2 {
                                sh.notes.push(format!("observation (zero-filled tail, not judged): {}: {}", sig, detail.chars().take(200).collect::<String>()));
                            }
                        } else {
                            sh.violation(&ctx.known, "C06", ctx.seed, &format!("C06/{}", sig), &format!("crash after event {} cuts {:?} others_full={}: {}", point, cuts_desc, cs.others_full, detail), replay);
                        }
                    }
                }
                Err(p) if cs.zero_fill => {
                    sh.add("observations_zero_fill_panic", 1);
                    let region = cs.cuts.iter().next().map(|(p, l)| format!("{}@{}", p.file_name().map(|x| x.to_string_lossy().to_string()).unwrap_or_default(), l)).unwrap_or_default();
                    if sh.notes.len() < 4 {
                        sh.notes.push(format!("observation (zero-filled tail, not judged): panic with {}: {}", region, p.chars().take(160).collect::<String>()));
                    }
                }
                Err(p) => {
                    let short: String = p.chars().take(100).collect();
                    sh.violation(&ctx.known, "C06", ctx.seed, "C06/panic-at-recovery", &format!("crash after event {} cuts {:?}: panic {}", point, cuts_desc, short), replay);
                }
            }
        }
    }
    rm_dir(&work);
    rm_dir(&base);
}

pub fn shard(ctx: &Ctx) -> Shard {
    let mut sh = Shard::default();
    let mut rng = Rng::new(ctx.shard_seed());
    let p = profile();
    let mut n = 0u64;
    // two thirds of the budget for the power-loss model, the rest for real kills
    let total = ctx.deadline.saturating_duration_since(std::time::Instant::now());
    let mut sub = ctx.clone();
    sub.deadline = std::time::Instant::now() + total * 2 / 3;
    while sub.time_left() {
        let mut cfg = random_cfg(&mut rng, p.n_keys, p.n_meta, Some(true));
        cfg.max_dirty = *rng.pick(&[None, None, Some(0), Some(100)]);
        let mut ops = gen_history(&mut rng, &p);
        // one history in six starts with 30..90 records over two or three keys with tied timestamps (markers among
        // them) in one blob: after a crash the index of such a blob is regenerated from that many records
        if rng.chance(1, 6) {
            let m = rng.range(30, 90);
            let nk = rng.range(2, 3);
            let mut pre = Vec::new();
            for _ in 0..m {
                let k = rng.below(nk) as u16;
                let ts = rng.below(3);
                if rng.chance(1, 7) {
                    pre.push(Op::Del { k, ts, meta: None, only_if: false });
                } else {
                    pre.push(Op::Put { k, ts, meta: None, size: rng.range(8, 24) as u32 });
                }
            }
            pre.extend(ops);
            ops = pre;
            sh.add("histories_fat_blob", 1);
        }
        let hid = ((ctx.shard as u64) << 20) | n;
        match cfg.keylen {
            4 => eval_history::<4>(&sub, &mut sh, &mut rng, &cfg, &ops, hid),
            32 => eval_history::<32>(&sub, &mut sh, &mut rng, &cfg, &ops, hid),
            _ => eval_history::<8>(&sub, &mut sh, &mut rng, &cfg, &ops, hid),
        }
        n += 1;
    }
    sh.add("histories", n);
    super::c06_kill::run(ctx, &mut sh, &mut rng);
    sh
}
