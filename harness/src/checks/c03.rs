//! C03 - restart equivalence: index files are a disposable cache of the blobs.

use super::common::random_cfg;
use crate::drive::{Cfg, Driver, Mismatch, S_ALL_QUERIES, S_RECCOUNT};
use crate::evidence::{Meta, Shard};
use crate::ops::{gen_history, history_json, history_short, Op, Profile};
use crate::parse;
use crate::rng::{fnv, Rng};
use crate::runner::{block_on_catch, new_dir, rm_dir, Ctx, Plan};
use pearl::verif::tap;
use serde_json::{json, Value};
use std::collections::BTreeMap;
use std::path::{Path, PathBuf};

pub fn plan() -> Plan {
    Plan {
        meta: Meta {
            property: "C03",
            level: "fault_enumeration",
            rule: "a random history (puts, deletes incl. deletes into already indexed blobs, rotations, dumps, restarts) is run against the real Storage and the model, all indexes are dumped, the storage is closed and the directory is kept as a base. For each damage case the base is copied, index files are damaged and the real init / init_lazy runs: init must succeed, the whole query surface (read, contains, read_all*, read_with, records_count) must equal the answers before the close (= model; a quarter of the cases off-loads all filter buffers right after the reopen), and next_blob_id must be above every id ever present. Damage classes enumerated per index file: remove; truncate at every structure boundary +-1 (header end, filter end, tree-meta end, each inner node, leaves start, each 4 KiB leaf block, last header, file end) + 32 random lengths (thorough: every byte length); zero-length; header-only; written bit cleared (alone and with truncation = half-written); stale copy (earlier dump of the same index describing a shorter blob, captured before a delete-into-closed); all 2^n subsets of removed files for n<=4 blobs. Second scenario for ids: newest blob quarantined at one restart, then further restarts - new blobs must not reuse its id. Non-trivial = damage case in which at least one index file was actually damaged and the storage held >=2 blobs or a deletion marker in a closed blob; distinct = hash(history, case).",
            assumptions: vec!["index bit flips are outside the statement (only missing/truncated/half-written/stale)", "verdict holds for the histories and damage cases generated for this seed"],
        },
        shards: 16,
        soft_s: (28, 600),
        exhaustive: None,
        min_evaluations: 200,
        extra: None,
    }
}

fn profile() -> Profile {
    Profile {
        n_keys: 5, ts_max: 4, n_meta: 1, len_min: 10, len_max: 36,
        w_put: 36, w_put_meta: 6, w_del: 16, w_del_meta: 2, w_burst: 2, w_rotate: 14,
        w_close: 1, w_create: 1, w_restore: 2, w_bg: 0, w_force: 2, w_dump: 10, w_dump_nowait: 0,
        w_offload: 0, w_fsync: 0, w_restart: 3, restart_rm_idx: false, big_values: false,
    }
}

#[derive(Clone, Debug)]
enum Damage {
    Remove,
    Truncate(u64),
    ClearWritten,
    ClearWrittenTruncate(u64),
    Stale(usize),
}

impl Damage {
    fn class(&self) -> &'static str {
        match self {
            Damage::Remove => "remove",
            Damage::Truncate(0) => "zero_length",
            Damage::Truncate(83) => "header_only",
            Damage::Truncate(_) => "truncate",
            Damage::ClearWritten => "written_bit_clear",
            Damage::ClearWrittenTruncate(_) => "half_written",
            Damage::Stale(_) => "stale",
        }
    }
}

fn copy_dir(from: &Path, to: &Path) {
    let _ = std::fs::create_dir_all(to);
    if let Ok(rd) = std::fs::read_dir(from) {
        for e in rd.flatten() {
            let p = e.path();
            if p.is_file() {
                let _ = std::fs::copy(&p, to.join(e.file_name()));
            } else if p.is_dir() {
                copy_dir(&p, &to.join(e.file_name()));
            }
        }
    }
}

fn clear_dir(d: &Path) {
    let _ = std::fs::remove_dir_all(d);
    let _ = std::fs::create_dir_all(d);
}

struct Base {
    dir: PathBuf,
    /// blob id -> intact index bytes
    indexes: BTreeMap<usize, Vec<u8>>,
    /// blob id -> earlier index versions (bytes) describing a shorter blob
    stale: BTreeMap<usize, Vec<Vec<u8>>>,
}

async fn build_base<const N: usize>(d: &mut Driver<N>, ops: &[Op], stale: &mut BTreeMap<usize, Vec<Vec<u8>>>) -> Result<(), Mismatch> {
    d.open(false).await?;
    for op in ops {
        d.step(op).await?;
        if matches!(op, Op::Dump) {
            // stash index versions; they become stale when the blob grows afterwards
            for id in d.model.blobs.keys() {
                let ip = d.dir.join(format!("t.{}.index", id));
                if let Ok(bytes) = std::fs::read(&ip) {
                    let e = stale.entry(*id).or_default();
                    if e.last() != Some(&bytes) {
                        e.push(bytes);
                    }
                }
            }
        }
    }
    // everything on disk, answers verified against the model once before the close
    d.step(&Op::Dump).await?;
    d.check(S_ALL_QUERIES | S_RECCOUNT).await?;
    d.close().await?;
    Ok(())
}

struct CaseOut {
    mismatch: Option<Mismatch>,
    regenerated: u64,
    accepted: u64,
}

async fn run_case<const N: usize>(d: &mut Driver<N>, lazy: bool, offload: bool, ids_ever_max: usize) -> CaseOut {
    let mut out = CaseOut { mismatch: None, regenerated: 0, accepted: 0 };
    tap::arm(&d.dir, false, true);
    let r = d.open(lazy).await;
    let events = tap::disarm(&d.dir);
    // a record scan of a blob file (read beyond the blob header) = the index was regenerated
    let mut scanned: std::collections::BTreeSet<PathBuf> = Default::default();
    let mut idx_opened: std::collections::BTreeSet<PathBuf> = Default::default();
    for e in events.iter() {
        let ext = e.path.extension().and_then(|x| x.to_str()).unwrap_or("");
        if ext == "blob" && e.kind == tap::Kind::Read && e.offset >= 20 {
            scanned.insert(e.path.as_ref().clone());
        }
        if ext == "index" && e.kind == tap::Kind::Open {
            idx_opened.insert(e.path.with_extension("blob"));
        }
    }
    out.regenerated = scanned.len() as u64;
    out.accepted = idx_opened.difference(&scanned).count() as u64;
    if let Err(m) = r {
        out.mismatch = Some(m);
        return out;
    }
    if offload {
        // answers must not depend on where the filter bits are held after the reopen
        use pearl::BloomProvider;
        let s = d.storage.as_mut().unwrap();
        let _ = s.offload_buffer(usize::MAX, 2).await;
    }
    if let Err(m) = d.check(S_ALL_QUERIES | S_RECCOUNT).await {
        out.mismatch = Some(m);
    } else {
        let nid = d.st().next_blob_id();
        if nid <= ids_ever_max {
            out.mismatch = Some(Mismatch { class: crate::drive::Class::Counts, sig: "next_blob_id-not-above-ids-ever-present".into(), detail: format!("next_blob_id() = {} but id {} was present in the directory", nid, ids_ever_max), step: d.step });
        }
    }
    if let Some(s) = d.storage.take() {
        let _ = s.close().await;
    }
    out
}

fn index_damages(bytes: &[u8], rng: &mut Rng, thorough: bool, n_stale: usize) -> Vec<Damage> {
    let mut v = vec![Damage::Remove, Damage::Truncate(0), Damage::Truncate(83), Damage::ClearWritten];
    let len = bytes.len() as u64;
    let ip = parse::parse_index(bytes);
    let mut lens: std::collections::BTreeSet<u64> = Default::default();
    if thorough && len <= 16 * 1024 {
        for l in 1..len {
            lens.insert(l);
        }
    } else {
        for (_, b) in ip.boundaries.iter() {
            for d in [-1i64, 0, 1] {
                let l = *b as i64 + d;
                if l > 0 && (l as u64) < len {
                    lens.insert(l as u64);
                }
            }
        }
        // every header start in the leaf region of small files
        let rhs = ip.record_header_size.max(1);
        let mut o = ip.leaves_offset;
        let mut n = 0;
        while o < len && n < 64 {
            lens.insert(o);
            o += rhs;
            n += 1;
        }
        for _ in 0..32 {
            if len > 2 {
                lens.insert(rng.range(1, len - 1));
            }
        }
    }
    lens.remove(&0);
    lens.remove(&83);
    for l in lens.iter() {
        v.push(Damage::Truncate(*l));
    }
    // half-written: body prefix with the written bit still clear
    let mut hw: Vec<u64> = lens.iter().copied().filter(|l| *l > 83).collect();
    if !thorough {
        rng.shuffle(&mut hw);
        hw.truncate(12);
    }
    for l in hw {
        v.push(Damage::ClearWrittenTruncate(l));
    }
    for s in 0..n_stale {
        v.push(Damage::Stale(s));
    }
    v
}

fn apply(dir: &Path, id: usize, dmg: &Damage, base: &Base) {
    let p = dir.join(format!("t.{}.index", id));
    match dmg {
        Damage::Remove => {
            let _ = std::fs::remove_file(&p);
        }
        Damage::Truncate(l) => {
            let b = &base.indexes[&id];
            let _ = std::fs::write(&p, &b[..(*l as usize).min(b.len())]);
        }
        Damage::ClearWritten => {
            let mut b = base.indexes[&id].clone();
            if b.len() > 72 {
                b[72] &= !1;
            }
            let _ = std::fs::write(&p, &b);
        }
        Damage::ClearWrittenTruncate(l) => {
            let mut b = base.indexes[&id].clone();
            if b.len() > 72 {
                b[72] &= !1;
            }
            b.truncate(*l as usize);
            let _ = std::fs::write(&p, &b);
        }
        Damage::Stale(s) => {
            let _ = std::fs::write(&p, &base.stale[&id][*s]);
        }
    }
}

fn history_eval<const N: usize>(ctx: &Ctx, sh: &mut Shard, rng: &mut Rng, cfg: &Cfg, ops: &[Op], hid: u64) {
    let base_dir = new_dir("c03b-");
    let work = new_dir("c03w-");
    let mut d: Driver<N> = Driver::new(base_dir.clone(), cfg.clone(), hid);
    let mut stale: BTreeMap<usize, Vec<Vec<u8>>> = BTreeMap::new();
    let built = block_on_catch(cfg.mt, build_base(&mut d, ops, &mut stale));
    match built {
        Ok(Ok(())) => {}
        Ok(Err(m)) => {
            // the base history itself disagreed with the model: owned by C01/C02/C04
            sh.add("desync_histories", 1);
            if sh.notes.len() < 4 {
                sh.notes.push(format!("base history abandoned ({}): {}", m.class.name(), m.detail));
            }
            rm_dir(&base_dir);
            rm_dir(&work);
            return;
        }
        Err(p) => {
            sh.violation(&ctx.known, "C03", ctx.seed, "C03/panic-in-base-history", &p, json!({"check": "c03", "cfg": cfg.to_json(), "history": history_json(ops)}));
            rm_dir(&base_dir);
            rm_dir(&work);
            return;
        }
    }
    sh.add("base_histories", 1);
    let model = d.model.clone();
    let mut base = Base { dir: base_dir.clone(), indexes: BTreeMap::new(), stale: BTreeMap::new() };
    for id in model.blobs.keys() {
        if let Ok(b) = std::fs::read(base_dir.join(format!("t.{}.index", id))) {
            base.indexes.insert(*id, b);
        }
        let blob_len = std::fs::metadata(base_dir.join(format!("t.{}.blob", id))).map(|m| m.len()).unwrap_or(0);
        // stale = earlier dumps that describe a shorter blob than the final one
        if let Some(vs) = stale.get(id) {
            let st: Vec<Vec<u8>> = vs.iter().filter(|b| parse::parse_index(b).blob_size < blob_len).cloned().collect();
            if !st.is_empty() {
                base.stale.insert(*id, st);
            }
        }
    }
    let ids_max = model.ids_ever.iter().next_back().copied().unwrap_or(0);
    let interesting = model.blobs.len() >= 2 || model.closed.iter().any(|c| model.blobs[c].iter().any(|r| r.del));
    // case list: (blob id -> damage)
    let mut cases: Vec<Vec<(usize, Damage)>> = Vec::new();
    cases.push(vec![]); // plain restart
    let ids: Vec<usize> = base.indexes.keys().copied().collect();
    if ids.len() <= 4 {
        for mask in 1u32..(1 << ids.len()) {
            cases.push(ids.iter().enumerate().filter(|(i, _)| mask >> i & 1 == 1).map(|(_, id)| (*id, Damage::Remove)).collect());
        }
    } else {
        for _ in 0..16 {
            let mask = rng.next();
            cases.push(ids.iter().enumerate().filter(|(i, _)| mask >> i & 1 == 1).map(|(_, id)| (*id, Damage::Remove)).collect());
        }
    }
    for id in ids.iter() {
        let n_stale = base.stale.get(id).map(|v| v.len()).unwrap_or(0);
        for dmg in index_damages(&base.indexes[id], rng, ctx.thorough(), n_stale) {
            cases.push(vec![(*id, dmg)]);
        }
    }
    // a few combined cases: every file damaged differently
    for _ in 0..6 {
        let mut c = Vec::new();
        for id in ids.iter() {
            let n_stale = base.stale.get(id).map(|v| v.len()).unwrap_or(0);
            let ds = index_damages(&base.indexes[id], rng, false, n_stale);
            c.push((*id, rng.pick(&ds).clone()));
        }
        cases.push(c);
    }
    for (ci, case) in cases.iter().enumerate() {
        if !ctx.time_left() {
            sh.add("cases_skipped_time_budget", (cases.len() - ci) as u64);
            break;
        }
        clear_dir(&work);
        copy_dir(&base.dir, &work);
        for (id, dmg) in case.iter() {
            apply(&work, *id, dmg, &base);
            sh.add(&format!("damage_{}", dmg.class()), 1);
        }
        let lazy = ci % 3 == 1;
        let mut dd: Driver<N> = Driver::new(work.clone(), cfg.clone(), hid);
        dd.model = model.clone();
        dd.model.restart(lazy);
        let offload = ci % 4 == 2;
        if offload {
            sh.add("reopen_then_offload_filters", 1);
        }
        let res = block_on_catch(cfg.mt, run_case(&mut dd, lazy, offload, ids_max));
        sh.evaluations += 1;
        sh.add(if lazy { "reopen_lazy" } else { "reopen_eager" }, 1);
        let case_desc: Vec<String> = case.iter().map(|(id, d)| format!("{}:{:?}", id, d)).collect();
        if interesting && !case.is_empty() {
            sh.nontrivial.insert(fnv(format!("{}|{}|{:?}", history_short(ops), cfg.keylen, case_desc).as_bytes()));
        }
        if ci == 7 && sh.samples.len() < 3 {
            sh.sample(json!({"cfg": cfg.to_json(), "history": history_short(ops), "case": case_desc, "lazy": lazy}));
        }
        let replay = |sig: &str| -> Value {
            json!({"check": "c03", "sig": sig, "cfg": cfg.to_json(), "hist_id": hid, "history": history_json(ops), "case": case_desc, "lazy": lazy})
        };
        match res {
            Ok(out) => {
                sh.add("indexes_regenerated_at_init", out.regenerated);
                sh.add("indexes_accepted_at_init", out.accepted);
                sh.add("queries_compared", dd.stats.compared);
                if let Some(m) = out.mismatch {
                    let classes: Vec<&str> = case.iter().map(|(_, d)| d.class()).collect();
                    let cls = if classes.is_empty() { "plain-restart".to_string() } else if classes.len() == 1 { classes[0].to_string() } else { "combined".to_string() };
                    let region = match case.first() {
                        Some((id, Damage::Truncate(l))) if case.len() == 1 => {
                            let ip = parse::parse_index(&base.indexes[id]);
                            if *l >= ip.leaves_offset { "/in-leaves" } else if *l >= ip.tree_offset { "/in-tree" } else { "/before-tree" }
                        }
                        _ => "",
                    };
                    let sig = format!("C03/{}{}/{}", cls, region, m.sig);
                    sh.violation(&ctx.known, "C03", ctx.seed, &sig, &format!("after reopen with damage {:?}: {}", case_desc, m.detail), replay(&sig));
                }
            }
            Err(p) => {
                let sig = "C03/panic-at-reopen";
                sh.violation(&ctx.known, "C03", ctx.seed, sig, &format!("damage {:?}: {}", case_desc, p), replay(sig));
            }
        }
    }
    rm_dir(&base_dir);
    rm_dir(&work);
}

/// ids: the newest blob is quarantined at one restart; after further restarts new blobs must not reuse its id
fn quarantine_ids_scenario(ctx: &Ctx, sh: &mut Shard, rng: &mut Rng) {
    let dir = new_dir("c03q-");
    let mut cfg = Cfg::default_for(3, 0);
    cfg.key_salt = rng.next();
    cfg.mt = rng.chance(1, 2);
    let n_blobs = rng.range(1, 3) as usize;
    let cut_back = rng.range(30, 90); // inside the header of the last record (93 bytes: 65 header + 8 meta + 20 data)
    let extra_restarts = rng.range(1, 2);
    let cfg2 = cfg.clone();
    let cfg3 = cfg.clone();
    let dir2 = dir.clone();
    let res = block_on_catch(cfg.mt, async move {
        let mut d: Driver<8> = Driver::new(dir2.clone(), cfg2, 0xC03);
        d.open(false).await.map_err(|m| m.detail)?;
        for b in 0..n_blobs {
            for k in 0..3u16 {
                d.step(&Op::Put { k, ts: b as u64, meta: None, size: 20 }).await.map_err(|m| m.detail)?;
            }
            if b + 1 < n_blobs {
                d.step(&Op::Close).await.map_err(|m| m.detail)?;
                d.step(&Op::Create).await.map_err(|m| m.detail)?;
            }
        }
        d.close().await.map_err(|m| m.detail)?;
        let newest = n_blobs - 1;
        // damage: cut the newest blob inside its last record and drop its index
        let bp = dir2.join(format!("t.{}.blob", newest));
        let len = std::fs::metadata(&bp).map(|m| m.len()).unwrap_or(0);
        let f = std::fs::OpenOptions::new().write(true).open(&bp).map_err(|e| e.to_string())?;
        f.set_len(len - cut_back.min(len - 21)).map_err(|e| e.to_string())?;
        drop(f);
        let _ = std::fs::remove_file(dir2.join(format!("t.{}.index", newest)));
        drop(d);
        let mut quarantined_bytes: BTreeMap<String, Vec<u8>> = BTreeMap::new();
        let rounds = 1 + extra_restarts;
        for round in 0..rounds {
            let mut s: pearl::Storage<pearl::ArrayKey<8>> = crate::drive::builder_for(&cfg3, &dir2).build().map_err(|e| format!("{:#}", e))?;
            s.init().await.map_err(|e| format!("init failed in round {}: {:#}", round, e))?;
            // quarantined files must never change
            if let Ok(rd) = std::fs::read_dir(dir2.join("corrupted")) {
                for e in rd.flatten() {
                    let name = e.file_name().to_string_lossy().to_string();
                    let bytes = std::fs::read(e.path()).unwrap_or_default();
                    if let Some(old) = quarantined_bytes.get(&name) {
                        if *old != bytes {
                            return Err(format!("ID-REUSE: quarantined file {} changed between restarts", name));
                        }
                    } else {
                        quarantined_bytes.insert(name, bytes);
                    }
                }
            }
            if quarantined_bytes.is_empty() {
                return Err("the damaged newest blob was not quarantined".into());
            }
            let nid = s.next_blob_id();
            if nid <= newest {
                return Err(format!("ID-REUSE: next_blob_id() = {} in round {} although id {} was used by the quarantined blob", nid, round, newest));
            }
            if round + 1 == rounds {
                // make the storage create one more blob and look at the file it creates
                s.force_update_active_blob(|_| true).await;
                if !s.verif_barrier(true).await {
                    return Err("worker dead".into());
                }
            }
            s.close().await.map_err(|e| format!("close: {:#}", e))?;
            if dir2.join(format!("t.{}.blob", newest)).exists() {
                return Err(format!("ID-REUSE: a new blob file t.{}.blob was created although that id belongs to the quarantined blob (round {})", newest, round));
            }
        }
        Ok::<(), String>(())
    });
    rm_dir(&dir);
    sh.evaluations += 1;
    sh.add("quarantine_id_scenarios", 1);
    sh.nontrivial.insert(fnv(format!("q{}-{}-{}", n_blobs, cut_back, extra_restarts).as_bytes()));
    let replay = json!({"check": "c03-quarantine-ids", "n_blobs": n_blobs, "cut_back": cut_back, "extra_restarts": extra_restarts});
    match res {
        Ok(Ok(())) => {}
        Ok(Err(e)) if e.starts_with("ID-REUSE") => sh.violation(&ctx.known, "C03", ctx.seed, "C03/id-reuse-after-quarantine", &e, replay),
        Ok(Err(e)) => sh.violation(&ctx.known, "C03", ctx.seed, "C03/quarantine-scenario-failed", &e, replay),
        Err(p) => sh.violation(&ctx.known, "C03", ctx.seed, "C03/quarantine-scenario-panic", &p, replay),
    }
}

pub fn shard(ctx: &Ctx) -> Shard {
    let mut sh = Shard::default();
    let mut rng = Rng::new(ctx.shard_seed());
    let p = profile();
    let mut n = 0u64;
    while ctx.time_left() {
        if n % 4 == 3 {
            quarantine_ids_scenario(ctx, &mut sh, &mut rng);
        }
        let mut cfg = random_cfg(&mut rng, p.n_keys, p.n_meta, Some(true));
        cfg.validate_data = rng.chance(1, 3);
        if cfg.bloom != 0 && rng.chance(1, 12) {
            // pearl's default bloom configuration: index files of several hundred KiB whose filter section dominates
            cfg.bloom = 2;
        }
        let mut ops = gen_history(&mut rng, &p);
        // one history in six starts with 9..13 small blobs holding tied versions of the same keys: the directory
        // then has two-digit blob ids, and the order in which a restart lists the blobs (numeric, not by name)
        // decides which tied version is served and which blob becomes the active one
        if rng.chance(1, 6) {
            let m = rng.range(9, 13);
            let mut pre = Vec::new();
            for i in 0..m {
                pre.push(Op::Put { k: (i % 2) as u16, ts: 1, meta: None, size: 9 + i as u32 });
                pre.push(Op::ForceUpdate { pred: true });
            }
            pre.extend(ops);
            ops = pre;
            sh.add("histories_many_blobs", 1);
        }
        // one history in six starts with a fat blob: 30..120 records over two or three keys with few distinct
        // timestamps (so every key has many tied versions, markers among them) in ONE blob: what a regenerated
        // index serves for a tie depends on the append order of that many records
        if rng.chance(1, 6) {
            let m = rng.range(30, 120);
            let nk = rng.range(2, 3);
            let mut pre = Vec::new();
            for _ in 0..m {
                let k = rng.below(nk) as u16;
                let ts = rng.below(3);
                if rng.chance(1, 7) {
                    pre.push(Op::Del { k, ts, meta: None, only_if: false });
                } else {
                    pre.push(Op::Put { k, ts, meta: None, size: rng.range(8, 24) as u32 });
                }
            }
            pre.push(if rng.chance(1, 2) { Op::ForceUpdate { pred: true } } else { Op::Close });
            pre.extend(ops);
            ops = pre;
            sh.add("histories_fat_blob", 1);
        }
        let hid = ((ctx.shard as u64) << 20) | n;
        match cfg.keylen {
            4 => history_eval::<4>(ctx, &mut sh, &mut rng, &cfg, &ops, hid),
            32 => history_eval::<32>(ctx, &mut sh, &mut rng, &cfg, &ops, hid),
            _ => history_eval::<8>(ctx, &mut sh, &mut rng, &cfg, &ops, hid),
        }
        n += 1;
    }
    sh
}
