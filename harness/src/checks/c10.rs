//! C10 - filters never give a false negative, in memory, on file, merged or off-loaded.

use super::modelchk::Spec;
use crate::drive::{Cfg, Class, S_FILTERS, S_READ};
use crate::evidence::{Meta, Shard};
use crate::ops::Profile;
use crate::rng::{fnv, Rng};
use crate::runner::{block_on_catch, Ctx, Plan};
use pearl::filter::{CombinedFilter, FilterTrait, HierarchicalFilters, RangeFilter};
use pearl::{ArrayKey, Bloom, BloomConfig, BloomDataProvider, BloomProvider, FilterResult};
use serde_json::json;
use std::collections::BTreeSet;
use std::time::{Duration, Instant};

pub fn plan() -> Plan {
    Plan {
        meta: Meta {
            property: "C10",
            level: "exploration",
            rule: "three monitors. (A) unit level through the public filter API: random bloom configs (bit counts not multiples of 64, 1..6 hashers, zero elements/bits/hashers), random key sets of random lengths: every added key must not be NotContains in memory, after to_raw/from_raw (answers equal for every probed key, added or not), and when the buffer is off-loaded and probed byte-wise through a BloomDataProvider over the serialized bytes (answers must EQUAL the in-memory answers for every probed key); checked_add_assign yields a superset or refuses, also against a filter that differs in exactly one configuration dimension (same bit count / other hasher count, other bit count); RangeFilter/CombinedFilter likewise; (A') 4 threads released together add their keys through &self to one shared RangeFilter / Bloom / CombinedFilter (150 short rounds per case, all threads moving the same bound): after the join no added key may be absent. (B) HierarchicalFilters driven with a harness-defined child through random push/pop/remove/re-push/offload_buffer(level) sequences for group sizes 2..9: every live child must be yielded by iter_possible_childs(key) (both directions) for every key it holds and check_filter(key) != NotContains. (B) also mixes children written under another bloom configuration. (C) storage level: model histories with close/restore/delete-in-closed/offload at each level/restart over group sizes 2..9 and random keys, a third of them re-opening the directory under another bloom configuration (2 <-> 3 hashers at equal bit count, bloom off) at every restart; after each step for every stored key: check_filters != Some(false), BloomProvider::check_filter != NotContains, get_filter() contains it, read != NotFound. Non-trivial = a case with >=2 filters merged or an off-loaded probe; distinct = hash of the case.",
            assumptions: vec!["verdict holds for the cases generated for this seed", "Miri run of monitor (A) is part of the thorough tier (tools/miri_c10.sh)"],
        },
        shards: 16,
        soft_s: (27, 420),
        exhaustive: None,
        min_evaluations: 200,
        extra: Some(miri_extra),
    }
}

/// thorough tier: the unit-level monitor at small sizes under Miri (UB / data races in the aHash fallback and atomics)
fn miri_extra(tier: &str, seed: u64, sh: &mut Shard) {
    if tier != "thorough" {
        return;
    }
    let script = crate::evidence::verif_root().join("tools").join("miri_c10.sh");
    let out = std::process::Command::new(&script).arg((seed % 1000).to_string()).arg("10").output();
    match out {
        Ok(o) => {
            let text = format!("{}{}", String::from_utf8_lossy(&o.stdout), String::from_utf8_lossy(&o.stderr));
            if let Some(l) = text.lines().find(|l| l.starts_with("MIRI_C10 ok")) {
                for kv in l.split_whitespace().skip(2) {
                    if let Some((k, v)) = kv.split_once('=') {
                        sh.add(&format!("miri_{}", k), v.parse().unwrap_or(0));
                    }
                }
                sh.add("miri_runs_clean", 1);
            } else if text.contains("Undefined Behavior") || text.contains("Data race") || text.contains("panicked") {
                let first = text.lines().find(|l| l.contains("Undefined Behavior") || l.contains("Data race") || l.contains("panicked")).unwrap_or("");
                let path = crate::evidence::verif_root().join("replays").join("C10-miri.log");
                let _ = std::fs::create_dir_all(path.parent().unwrap());
                let _ = std::fs::write(&path, &text);
                sh.violations.push(crate::evidence::Violation { sig: "C10/miri-report".into(), detail: first.to_string(), replay: path.to_string_lossy().to_string() });
            } else {
                sh.notes.push(format!("Miri run inconclusive (exit {:?}): {}", o.status.code(), text.lines().last().unwrap_or("")));
            }
        }
        Err(e) => sh.notes.push(format!("Miri run could not be started: {}", e)),
    }
}

struct RawProvider(Vec<u8>, std::sync::atomic::AtomicU64);

#[async_trait::async_trait]
impl BloomDataProvider for RawProvider {
    async fn read_byte(&self, index: u64) -> anyhow::Result<u8> {
        self.1.fetch_add(1, std::sync::atomic::Ordering::Relaxed);
        self.0.get(index as usize).copied().ok_or_else(|| anyhow::anyhow!("read beyond the serialized filter: {} >= {}", index, self.0.len()))
    }
}

fn random_bloom_cfg(rng: &mut Rng) -> BloomConfig {
    match rng.below(10) {
        0 => BloomConfig { elements: 0, hashers_count: 2, max_buf_bits_count: 1000, buf_increase_step: 1, preferred_false_positive_rate: 0.01 },
        1 => BloomConfig { elements: 100, hashers_count: 0, max_buf_bits_count: 1000, buf_increase_step: 1, preferred_false_positive_rate: 0.01 },
        2 => BloomConfig { elements: 100, hashers_count: 2, max_buf_bits_count: 0, buf_increase_step: 1, preferred_false_positive_rate: 0.01 },
        _ => BloomConfig {
            elements: rng.range(1, 300) as usize,
            hashers_count: rng.range(1, 6) as usize,
            max_buf_bits_count: rng.range(1, 5000) as usize,
            buf_increase_step: rng.range(1, 100) as usize,
            preferred_false_positive_rate: *rng.pick(&[0.5, 0.1, 0.01, 0.001]),
        },
    }
}

fn norm(r: Option<FilterResult>) -> bool {
    // true = may contain
    !matches!(r, Some(FilterResult::NotContains))
}

/// monitor (A): returns Err((sig, detail)) on a violation
async fn unit_case(rng: &mut Rng, sh: &mut Shard) -> Result<bool, (String, String)> {
    let cfg = random_bloom_cfg(rng);
    let bloom = Bloom::new(cfg.clone());
    let nkeys = rng.range(0, 120) as usize;
    let klen_mode = rng.below(3);
    let mut added: Vec<Vec<u8>> = Vec::new();
    for _ in 0..nkeys {
        let l = match klen_mode {
            0 => 8,
            1 => rng.range(1, 40) as usize,
            _ => *rng.pick(&[1usize, 3, 16, 17, 31, 32, 33, 64, 100]),
        };
        let k = rng.bytes(l);
        bloom.add(&k).map_err(|e| ("bloom/add-failed".to_string(), format!("{:#}", e)))?;
        added.push(k);
    }
    let mut probes: Vec<Vec<u8>> = added.clone();
    for _ in 0..60 {
        let l = rng.range(1, 40) as usize;
        probes.push(rng.bytes(l));
    }
    sh.add("unit_keys_added", added.len() as u64);
    sh.add("unit_keys_probed", probes.len() as u64);
    for k in added.iter() {
        if !norm(bloom.contains_in_memory(k)) {
            return Err(("bloom/memory-false-negative".into(), format!("cfg {:?}: added key {:?} reported NotContains in memory", cfg, k)));
        }
    }
    let raw = bloom.to_raw().map_err(|e| ("bloom/to_raw-failed".to_string(), format!("{:#}", e)))?;
    let back = Bloom::from_raw(&raw).map_err(|e| ("bloom/from_raw-failed".to_string(), format!("cfg {:?}: {:#}", cfg, e)))?;
    let mut off = bloom.clone();
    let freed = off.offload_from_memory();
    let _ = freed;
    if !off.is_offloaded() {
        return Err(("bloom/offload-noop".into(), "offload_from_memory left the buffer in memory".into()));
    }
    let provider = RawProvider(raw.clone(), std::sync::atomic::AtomicU64::new(0));
    for k in probes.iter() {
        let m = norm(bloom.contains_in_memory(k));
        let b = norm(back.contains_in_memory(k));
        if m != b {
            return Err(("bloom/from_raw-differs".into(), format!("cfg {:?}: key {:?}: memory {} vs deserialized {}", cfg, k, m, b)));
        }
        let f = off.contains_in_file(&provider, k).await.map_err(|e| ("bloom/contains_in_file-failed".to_string(), format!("cfg {:?}: {:#}", cfg, e)))?;
        let f = f != FilterResult::NotContains;
        if f != m {
            let sig = if m { "bloom/offloaded-false-negative" } else { "bloom/offloaded-differs" };
            return Err((sig.into(), format!("cfg {:?}: key {:?}: memory {} vs off-loaded probe {}", cfg, k, m, f)));
        }
        // FilterTrait::contains on the off-loaded filter takes the same path the storage takes
        let t = <Bloom as FilterTrait<Vec<u8>>>::contains(&off, &provider, k).await != FilterResult::NotContains;
        if t != m {
            return Err(("bloom/trait-contains-differs".into(), format!("cfg {:?}: key {:?}: memory {} vs FilterTrait::contains on off-loaded {}", cfg, k, m, t)));
        }
    }
    sh.add("unit_offloaded_byte_reads", provider.1.load(std::sync::atomic::Ordering::Relaxed));
    // merge: superset or refusal
    // the other side: same configuration, an unrelated one, or one that differs in exactly one dimension
    // (same bit count / other hasher count, same hashers / other bit count): what a group sees when the
    // bloom configuration was changed between two runs over the same directory
    let other_cfg = match rng.below(6) {
        0 | 1 | 2 => cfg.clone(),
        3 => random_bloom_cfg(rng),
        4 => {
            let mut c = cfg.clone();
            c.hashers_count = if c.hashers_count >= 2 && rng.chance(1, 2) { c.hashers_count - 1 } else { c.hashers_count + 1 };
            sh.add("unit_merges_other_hasher_count", 1);
            c
        }
        _ => {
            let mut c = cfg.clone();
            c.max_buf_bits_count = (c.max_buf_bits_count / 2).max(1);
            c.elements = c.elements.max(1) * 2;
            sh.add("unit_merges_other_bit_count", 1);
            c
        }
    };
    let other = Bloom::new(other_cfg.clone());
    let mut other_keys = Vec::new();
    for _ in 0..rng.range(0, 50) {
        let l = rng.range(1, 24) as usize;
        let k = rng.bytes(l);
        let _ = other.add(&k);
        other_keys.push(k);
    }
    let mut merged = bloom.clone();
    let accepted = merged.checked_add_assign(&other);
    sh.add(if accepted { "unit_merges_accepted" } else { "unit_merges_refused" }, 1);
    if accepted {
        for k in added.iter().chain(other_keys.iter()) {
            if !norm(merged.contains_in_memory(k)) {
                return Err(("bloom/merge-false-negative".into(), format!("cfg {:?} + {:?}: key {:?} lost by checked_add_assign", cfg, other_cfg, k)));
            }
        }
    } else {
        for k in added.iter() {
            if !norm(merged.contains_in_memory(k)) {
                return Err(("bloom/refused-merge-damaged".into(), format!("cfg {:?}: key {:?} lost after a refused merge", cfg, k)));
            }
        }
    }
    // range + combined filter over 8-byte keys
    let range: RangeFilter<ArrayKey<8>> = RangeFilter::new();
    let combined: CombinedFilter<ArrayKey<8>> = CombinedFilter::new(if rng.chance(3, 4) { Some(Bloom::new(cfg.clone())) } else { None }, RangeFilter::new());
    let mut k8: Vec<ArrayKey<8>> = Vec::new();
    for _ in 0..rng.range(0, 40) {
        let k = ArrayKey::<8>::from(rng.bytes(8));
        range.add(&k);
        FilterTrait::add(&combined, &k);
        k8.push(k);
    }
    let rraw = range.to_raw().map_err(|e| ("range/to_raw-failed".to_string(), format!("{:#}", e)))?;
    let rback = RangeFilter::<ArrayKey<8>>::from_raw(&rraw).map_err(|e| ("range/from_raw-failed".to_string(), format!("{:#}", e)))?;
    let mut cmerged = combined.clone();
    let other_c: CombinedFilter<ArrayKey<8>> = CombinedFilter::new(combined.bloom().as_ref().map(|_| Bloom::new(cfg.clone())), RangeFilter::new());
    let mut k8b = Vec::new();
    for _ in 0..rng.range(0, 10) {
        let k = ArrayKey::<8>::from(rng.bytes(8));
        FilterTrait::add(&other_c, &k);
        k8b.push(k);
    }
    let cacc = cmerged.checked_add_assign(&other_c);
    let mut coff = combined.clone();
    coff.offload_filter();
    let craw = combined.bloom().as_ref().map(|b| b.to_raw().unwrap_or_default()).unwrap_or_default();
    let cprov = RawProvider(craw, std::sync::atomic::AtomicU64::new(0));
    for k in k8.iter() {
        if !range.contains(k) || !rback.contains(k) {
            return Err(("range/false-negative".into(), format!("range filter lost key {:?} (raw round trip: {})", k, rback.contains(k))));
        }
        if combined.contains_fast(k) == FilterResult::NotContains {
            return Err(("combined/false-negative".into(), format!("combined filter lost key {:?}", k)));
        }
        if coff.contains(&cprov, k).await == FilterResult::NotContains {
            return Err(("combined/offloaded-false-negative".into(), format!("off-loaded combined filter lost key {:?}", k)));
        }
    }
    if cacc {
        for k in k8.iter().chain(k8b.iter()) {
            if cmerged.contains_fast(k) == FilterResult::NotContains {
                return Err(("combined/merge-false-negative".into(), format!("merged combined filter lost key {:?}", k)));
            }
        }
    }
    // probes around the range bounds must agree between original and deserialized range filter
    for _ in 0..20 {
        let k = ArrayKey::<8>::from(rng.bytes(8));
        if range.contains(&k) != rback.contains(&k) {
            return Err(("range/from_raw-differs".into(), format!("range filter answers differ after raw round trip for {:?}", k)));
        }
    }
    Ok(accepted || !added.is_empty())
}

/// Monitor (A'), concurrent adds: the filters are `Sync` and are filled through `&self` (atomics in the bloom buffer, an
/// RwLock in the range filter; a layer above pearl adds to group filters from every writer). 4 threads are released
/// together and each adds its keys to ONE shared RangeFilter / Bloom / CombinedFilter; after the join no added key may
/// be reported absent. Rounds are short and many: the window is the first keys of a filter (both bounds still moving).
fn concurrent_adds_case(rng: &mut Rng) -> Result<u64, (String, String)> {
    const T: usize = 4;
    let cfg = random_bloom_cfg(rng);
    let rounds = 150;
    let mut checked = 0u64;
    for round in 0..rounds {
        let range: RangeFilter<ArrayKey<8>> = RangeFilter::new();
        let bloom = Bloom::new(cfg.clone());
        let combined: CombinedFilter<ArrayKey<8>> = CombinedFilter::new(Some(Bloom::new(cfg.clone())), RangeFilter::new());
        // keys per thread: all threads move the same bound in the same round (descending or ascending ladders)
        let per = 1 + (round % 3);
        let base = rng.next() >> 8;
        let keys: Vec<Vec<ArrayKey<8>>> = (0..T)
            .map(|t| {
                (0..per)
                    .map(|i| {
                        let step = (t as u64 + 1) * 1000 + i as u64 * 7;
                        let v = if round % 2 == 0 { base.wrapping_sub(step) } else { base.wrapping_add(step) };
                        ArrayKey::<8>::from(v.to_be_bytes().to_vec())
                    })
                    .collect()
            })
            .collect();
        // a blocking barrier, not a spin rendezvous: 16 shards run side by side and spinning threads would starve them
        let ready = std::sync::Barrier::new(T);
        std::thread::scope(|sc| {
            for t in 0..T {
                let (range, bloom, combined, keys, ready) = (&range, &bloom, &combined, &keys[t], &ready);
                sc.spawn(move || {
                    ready.wait();
                    for k in keys.iter() {
                        range.add(k);
                        let _ = bloom.add(k);
                        FilterTrait::add(combined, k);
                    }
                });
            }
        });
        for (t, ks) in keys.iter().enumerate() {
            for k in ks.iter() {
                checked += 1;
                if !range.contains(k) {
                    return Err(("range/concurrent-add-false-negative".into(), format!("round {}: key {:?} was added by thread {} (add returned) concurrently with {} other threads, the range filter says it is absent", round, k, t, T - 1)));
                }
                if bloom.contains_in_memory(k) == Some(FilterResult::NotContains) {
                    return Err(("bloom/concurrent-add-false-negative".into(), format!("round {}: key {:?} added by thread {} is absent from the bloom filter (cfg {:?})", round, k, t, cfg)));
                }
                if combined.contains_fast(k) == FilterResult::NotContains {
                    return Err(("combined/concurrent-add-false-negative".into(), format!("round {}: key {:?} added by thread {} is absent from the combined filter", round, k, t)));
                }
            }
        }
    }
    Ok(checked)
}

/// child of the hierarchical container in monitor (B)
struct TestChild {
    id: u64,
    keys: BTreeSet<[u8; 8]>,
    filter: CombinedFilter<ArrayKey<8>>,
}

#[async_trait::async_trait]
impl BloomProvider<ArrayKey<8>> for TestChild {
    type Filter = CombinedFilter<ArrayKey<8>>;
    async fn check_filter(&self, item: &ArrayKey<8>) -> FilterResult {
        // an off-loaded bloom cannot answer in memory: the child falls back to its key set (like a blob reads its file)
        if self.filter.is_filter_offloaded() {
            let k: [u8; 8] = AsRef::<[u8]>::as_ref(item).try_into().unwrap();
            if self.keys.contains(&k) {
                FilterResult::NeedAdditionalCheck
            } else {
                FilterResult::NotContains
            }
        } else {
            self.filter.contains_fast(item)
        }
    }
    fn check_filter_fast(&self, item: &ArrayKey<8>) -> FilterResult {
        self.filter.contains_fast(item)
    }
    async fn offload_buffer(&mut self, _needed: usize, _level: usize) -> usize {
        self.filter.offload_filter()
    }
    async fn get_filter(&self) -> Option<Self::Filter> {
        Some(self.filter.clone())
    }
    fn get_filter_fast(&self) -> Option<&Self::Filter> {
        Some(&self.filter)
    }
    async fn filter_memory_allocated(&self) -> usize {
        self.filter.memory_allocated()
    }
}

fn mk_child(rng: &mut Rng, id: u64, bloom_cfg: &Option<BloomConfig>, pool: &[[u8; 8]]) -> TestChild {
    // one child in six was "written under another configuration": other hasher count, no bloom at all, or other bit count
    let mut cfg = bloom_cfg.clone();
    if rng.chance(1, 6) {
        cfg = match (cfg, rng.below(3)) {
            (Some(mut c), 0) => {
                c.hashers_count += 1;
                Some(c)
            }
            (Some(mut c), 1) => {
                c.max_buf_bits_count = c.max_buf_bits_count / 2 + 1;
                Some(c)
            }
            (Some(_), _) => None,
            (None, _) => Some(BloomConfig { elements: 60, hashers_count: 2, max_buf_bits_count: 333, buf_increase_step: 3, preferred_false_positive_rate: 0.05 }),
        };
    }
    let filter = CombinedFilter::new(cfg.map(Bloom::new), RangeFilter::new());
    let mut keys = BTreeSet::new();
    for _ in 0..rng.range(0, 12) {
        let k = *rng.pick(pool);
        FilterTrait::add(&filter, &ArrayKey::<8>::from(k));
        keys.insert(k);
    }
    TestChild { id, keys, filter }
}

async fn hier_case(rng: &mut Rng, sh: &mut Shard) -> Result<(bool, String), (String, String)> {
    let group = rng.range(2, 9) as usize;
    let level = rng.range(0, 2) as usize;
    let bloom_cfg = match rng.below(4) {
        0 => None,
        _ => Some(BloomConfig { elements: 60, hashers_count: rng.range(1, 3) as usize, max_buf_bits_count: rng.range(65, 900) as usize, buf_increase_step: 3, preferred_false_positive_rate: 0.05 }),
    };
    let pool: Vec<[u8; 8]> = (0..rng.range(4, 60)).map(|_| rng.bytes(8).try_into().unwrap()).collect();
    let mut h: HierarchicalFilters<ArrayKey<8>, CombinedFilter<ArrayKey<8>>, TestChild> = HierarchicalFilters::new(group, level);
    // shadow: child id -> keys, for live children (by ChildId slot)
    let mut live: std::collections::BTreeMap<usize, (u64, BTreeSet<[u8; 8]>)> = Default::default();
    let mut next_id = 0u64;
    let mut script = String::new();
    let steps = rng.range(3, 40);
    let mut merged_levels = false;
    for _ in 0..steps {
        match rng.weighted(&[50, 12, 8, 10, 10]) {
            0 => {
                let c = mk_child(rng, next_id, &bloom_cfg, &pool);
                next_id += 1;
                let keys = c.keys.clone();
                let cid_u = c.id;
                let cid = h.push(c).await;
                live.insert(cid, (cid_u, keys));
                script.push_str(&format!("push#{} ", cid));
                sh.add("hier_pushes", 1);
            }
            1 => {
                let exp = live.keys().next_back().copied();
                let got = h.pop();
                match (exp, got) {
                    (Some(e), Some(c)) => {
                        let (uid, _) = live.remove(&e).unwrap();
                        if c.id != uid {
                            return Err(("hier/pop-wrong-child".into(), format!("pop returned child {} expected {} (script {})", c.id, uid, script)));
                        }
                        script.push_str("pop ");
                        // re-push the popped child half of the time (restore + close in the storage)
                        if rng.chance(1, 2) {
                            let keys = c.keys.clone();
                            let uid = c.id;
                            let cid = h.push(c).await;
                            live.insert(cid, (uid, keys));
                            script.push_str(&format!("repush#{} ", cid));
                            sh.add("hier_repushes", 1);
                        }
                    }
                    (None, None) => {}
                    (e, g) => return Err(("hier/pop-mismatch".into(), format!("pop: expected slot {:?}, got child {:?} (script {})", e, g.map(|c| c.id), script))),
                }
                sh.add("hier_pops", 1);
            }
            2 => {
                if let Some(slot) = live.keys().nth(rng.below(live.len().max(1) as u64) as usize).copied() {
                    let got = h.remove(slot);
                    let (uid, _) = live.remove(&slot).unwrap();
                    if got.map(|c| c.id) != Some(uid) {
                        return Err(("hier/remove-wrong-child".into(), format!("remove({}) did not return child {} (script {})", slot, uid, script)));
                    }
                    script.push_str(&format!("rm#{} ", slot));
                    sh.add("hier_removes", 1);
                }
            }
            3 => {
                let lvl = rng.range(0, 3) as usize;
                let needed = *rng.pick(&[1usize, 100, usize::MAX]);
                let freed = h.offload_buffer(needed, lvl).await;
                script.push_str(&format!("off({},{})={} ", needed, lvl, freed));
                sh.add("hier_offloads", 1);
                sh.add("hier_offloaded_bytes", freed as u64);
            }
            _ => {
                // a key added to a live child after the push (delete marker into a closed blob): parents are told
                if let Some(slot) = live.keys().nth(rng.below(live.len().max(1) as u64) as usize).copied() {
                    let k = *rng.pick(&pool);
                    if let Some(leaf) = h.get_child_mut(slot) {
                        if !leaf.data.filter.is_filter_offloaded() {
                            FilterTrait::add(&leaf.data.filter, &ArrayKey::<8>::from(k));
                            leaf.data.keys.insert(k);
                            live.get_mut(&slot).unwrap().1.insert(k);
                            h.add_to_parents(slot, &ArrayKey::<8>::from(k));
                            script.push_str(&format!("add#{} ", slot));
                            sh.add("hier_late_adds", 1);
                        }
                    }
                }
            }
        }
        if live.len() > group {
            merged_levels = true;
        }
        // oracle after every step
        if h.len() != live.len() {
            return Err(("hier/len".into(), format!("len() = {} with {} live children (script {})", h.len(), live.len(), script)));
        }
        for (slot, (uid, keys)) in live.iter() {
            for k in keys.iter() {
                let key = ArrayKey::<8>::from(*k);
                sh.add("hier_key_checks", 1);
                let fwd = h.iter_possible_childs(&key).any(|(cid, leaf)| cid == *slot && leaf.data.id == *uid);
                let rev = h.iter_possible_childs_rev(&key).any(|(cid, leaf)| cid == *slot && leaf.data.id == *uid);
                if !fwd || !rev {
                    return Err(("hier/child-not-yielded".into(), format!("group {} level {}: child slot {} holding key {:?} is not yielded by iter_possible_childs{} (script {})", group, level, slot, k, if fwd { "_rev" } else { "" }, script)));
                }
                if h.check_filter(&key).await == FilterResult::NotContains {
                    return Err(("hier/check_filter-false-negative".into(), format!("group {}: check_filter says NotContains for key {:?} held by slot {} (script {})", group, k, slot, script)));
                }
                if h.check_filter_fast(&key) == FilterResult::NotContains {
                    return Err(("hier/check_filter_fast-false-negative".into(), format!("group {}: check_filter_fast says NotContains for key {:?} held by slot {} (script {})", group, k, slot, script)));
                }
                if let Some(f) = h.get_filter_fast() {
                    if f.contains_fast(&key) == FilterResult::NotContains {
                        return Err(("hier/root-filter-false-negative".into(), format!("group {}: root filter says NotContains for key {:?} held by slot {} (script {})", group, k, slot, script)));
                    }
                }
            }
        }
        // order of iteration: rev yields slots in descending order, forward ascending (the storage ranks blobs by it)
        if let Some(k) = pool.first() {
            let key = ArrayKey::<8>::from(*k);
            let f: Vec<usize> = h.iter_possible_childs(&key).map(|x| x.0).collect();
            let r: Vec<usize> = h.iter_possible_childs_rev(&key).map(|x| x.0).collect();
            if !f.windows(2).all(|w| w[0] < w[1]) || !r.windows(2).all(|w| w[0] > w[1]) {
                return Err(("hier/iteration-order".into(), format!("iteration order not monotonic: fwd {:?} rev {:?} (script {})", f, r, script)));
            }
        }
    }
    Ok((merged_levels, format!("g{}l{}:{}", group, level, script)))
}

fn tweak(cfg: &mut Cfg, rng: &mut Rng) {
    cfg.group = rng.range(2, 9) as usize;
    cfg.bloom = *rng.pick(&[1u8, 1, 1, 0, 1, 1, 1, 2]);
    cfg.allow_dup = true;
    // a third of the histories re-open the directory under another bloom configuration at every restart
    cfg.bloom_flip = rng.chance(1, 3);
}

pub fn storage_spec() -> Spec {
    Spec {
        property: "C10",
        check_name: "c10-storage",
        profile: Profile::c10(),
        surface: S_FILTERS | S_READ,
        owned: vec![Class::Filters, Class::Read],
        nontrivial_rule: 0,
        dup: Some(true),
        enumerate_len: (0, 0),
        max_random: (100_000, 10_000_000),
        tweak_cfg: tweak,
    }
}

pub fn shard(ctx: &Ctx) -> Shard {
    let mut sh = Shard::default();
    let mut rng = Rng::new(ctx.shard_seed());
    let total = ctx.deadline.saturating_duration_since(Instant::now());
    let third = Duration::from_millis((total.as_millis() / 3) as u64);
    // (A) gets a quarter: a tenth goes to the concurrent adds that follow it
    let t_a = Instant::now() + Duration::from_millis((total.as_millis() / 4) as u64);
    let t_b = t_a + third;

    // (A) unit level
    let mut n = 0u64;
    while Instant::now() < t_a && n < 2_000_000 {
        let case_seed = rng.next();
        let mut crng = Rng::new(case_seed);
        let mut local = Shard::default();
        let res = block_on_catch(false, unit_case(&mut crng, &mut local));
        for (k, v) in local.counters {
            sh.add(&k, v);
        }
        sh.evaluations += 1;
        n += 1;
        match res {
            Ok(Ok(nt)) => {
                if nt {
                    sh.nontrivial.insert(case_seed);
                }
            }
            Ok(Err((sig, detail))) => sh.violation(&ctx.known, "C10", ctx.seed, &format!("C10/{}", sig), &detail, json!({"check": "c10-unit", "case_seed": case_seed})),
            Err(p) => sh.violation(&ctx.known, "C10", ctx.seed, "C10/unit/panic", &p, json!({"check": "c10-unit", "case_seed": case_seed})),
        }
    }
    // (A') concurrent adds through &self: one case per shard and per 400 unit cases
    // bounded by time as well: at most a tenth of the budget, so that (B) and (C) keep their thirds
    let t_conc = Instant::now() + Duration::from_millis((total.as_millis() / 10) as u64);
    for c in 0..(1 + n / 400).min(20) {
        if c > 0 && Instant::now() >= t_conc {
            break;
        }
        let case_seed = rng.next();
        let mut crng = Rng::new(case_seed);
        sh.evaluations += 1;
        match std::panic::catch_unwind(std::panic::AssertUnwindSafe(|| concurrent_adds_case(&mut crng))) {
            Ok(Ok(k)) => {
                sh.add("concurrent_add_keys_checked", k);
                sh.add("concurrent_add_cases", 1);
                sh.nontrivial.insert(case_seed ^ c);
            }
            Ok(Err((sig, detail))) => sh.violation(&ctx.known, "C10", ctx.seed, &format!("C10/{}", sig), &detail, json!({"check": "c10-concurrent-adds", "case_seed": case_seed})),
            Err(_) => {
                let p = crate::runner::take_panics();
                sh.violation(&ctx.known, "C10", ctx.seed, "C10/concurrent-adds/panic", &format!("{:?}", p.last()), json!({"check": "c10-concurrent-adds", "case_seed": case_seed}));
            }
        }
    }
    sh.add("unit_cases", n);
    if n > 0 {
        sh.sample(json!({"kind": "unit", "what": "random bloom config + key set: add / to_raw / from_raw / off-loaded byte probing / merge", "cases": n}));
    }

    // (B) hierarchical container
    let mut n = 0u64;
    while Instant::now() < t_b && n < 2_000_000 {
        let case_seed = rng.next();
        let mut crng = Rng::new(case_seed);
        let mut local = Shard::default();
        let res = block_on_catch(false, hier_case(&mut crng, &mut local));
        for (k, v) in local.counters {
            sh.add(&k, v);
        }
        sh.evaluations += 1;
        n += 1;
        match res {
            Ok(Ok((nt, script))) => {
                if nt {
                    sh.nontrivial.insert(fnv(script.as_bytes()));
                }
                if n == 1 {
                    sh.sample(json!({"kind": "hierarchical", "script": script}));
                }
            }
            Ok(Err((sig, detail))) => sh.violation(&ctx.known, "C10", ctx.seed, &format!("C10/{}", sig), &detail, json!({"check": "c10-hier", "case_seed": case_seed})),
            Err(p) => sh.violation(&ctx.known, "C10", ctx.seed, "C10/hier/panic", &p, json!({"check": "c10-hier", "case_seed": case_seed})),
        }
    }
    sh.add("hier_cases", n);

    // (C) storage level
    let sub = super::modelchk::shard(ctx, &storage_spec());
    let storage_histories = sub.counters.get("random_histories").copied().unwrap_or(0);
    sh.merge(sub);
    // every monitor must have observed something: a shard in which one of them got no time decides nothing
    if sh.violations.is_empty() && (n == 0 || storage_histories == 0) {
        sh.inconclusive.push(format!("a monitor did not run in this shard: hierarchical cases {}, storage histories {}", n, storage_histories));
    }
    sh
}
