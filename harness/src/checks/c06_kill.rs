//! C06 monitor (b): real SIGKILL of a child process doing a write-heavy history.

use crate::drive::value_bytes;
use crate::evidence::Shard;
use crate::parse;
use crate::rng::{fnv, Rng};
use crate::runner::{block_on_catch, new_dir, rm_dir, Ctx};
use bytes::Bytes;
use pearl::{ArrayKey, BlobRecordTimestamp, Builder, ReadResult, Storage};
use serde_json::json;
use std::io::Write;
use std::path::{Path, PathBuf};
use std::time::Duration;

fn builder(dir: &Path, validate: bool) -> Builder {
    Builder::new()
        .work_dir(dir)
        .blob_file_name_prefix("t")
        .max_blob_size(1 << 40)
        .max_data_in_blob(1_000_000_000)
        .allow_duplicates()
        .set_filter_config(crate::drive::small_bloom())
        .set_deferred_index_dump_times(Duration::from_millis(1), Duration::from_millis(3))
        .set_validate_data_during_index_regen(validate)
        .set_max_dirty_bytes_before_sync(64 * 1024)
}

fn key_of(n: u64) -> ArrayKey<8> {
    ArrayKey::<8>::from(n.to_be_bytes().to_vec())
}

fn size_of(seed: u64, n: u64) -> u32 {
    let r = crate::rng::mix(seed, n);
    match r % 10 {
        0 => 5000 + (r >> 8) as u32 % 4000,      // two-buffer path
        1 => 82_000 + (r >> 8) as u32 % 2000,    // background I/O path
        2 => 3950 + (r >> 8) as u32 % 150,       // around the single-pass threshold
        _ => 8 + (r >> 8) as u32 % 200,
    }
}

/// Child process body: never returns normally (killed by the parent).
/// Four writer tasks append concurrently (disjoint key ranges) while the main task rotates blobs
/// and requests dumps; every operation is logged before (I) and after its acknowledgement (A).
pub fn child_main(args: &[String]) -> i32 {
    let dir = PathBuf::from(&args[0]);
    let seed: u64 = args[1].parse().unwrap_or(1);
    let start: u64 = args[2].parse().unwrap_or(0);
    let log_path = dir.join("ops.log");
    let rt = crate::runner::runtime(true);
    rt.block_on(async move {
        let log = std::sync::Arc::new(std::sync::Mutex::new(std::fs::OpenOptions::new().create(true).append(true).open(&log_path).expect("log")));
        let mut s: Storage<ArrayKey<8>> = builder(&dir.join("db"), false).build().expect("build");
        s.init().await.expect("init");
        let s = std::sync::Arc::new(s);
        {
            let mut l = log.lock().unwrap();
            let _ = writeln!(l, "R");
        }
        let writers = if seed % 3 == 0 { 1u64 } else { 4 };
        for w in 0..writers {
            let s = s.clone();
            let log = log.clone();
            tokio::spawn(async move {
                let mut n = start + w * 100_000;
                loop {
                    let size = size_of(seed, n);
                    let val = (seed << 32) ^ n ^ 0x5555_0000_0000;
                    {
                        let mut l = log.lock().unwrap();
                        let _ = writeln!(l, "I {} {} {}", n, size, val);
                    }
                    let r = s.write(key_of(n), Bytes::from(value_bytes(val, size)), BlobRecordTimestamp::new(n)).await;
                    {
                        let mut l = log.lock().unwrap();
                        let _ = writeln!(l, "{} {}", if r.is_ok() { "A" } else { "E" }, n);
                    }
                    n += 1;
                }
            });
        }
        let mut i = 0u64;
        loop {
            tokio::time::sleep(Duration::from_micros(300 + crate::rng::mix(seed, i) % 2000)).await;
            let r = crate::rng::mix(seed ^ 0x77, i);
            if r % 5 == 0 {
                let _ = s.try_close_active_blob().await;
                let _ = s.try_create_active_blob().await;
            } else if r % 7 == 0 {
                s.force_update_active_blob(|_| true).await;
            } else if r % 3 == 0 {
                let _ = s.free_excess_resources().await;
            }
            i += 1;
        }
    });
    0
}

struct LogEntry {
    n: u64,
    size: u32,
    val: u64,
    acked: bool,
}

fn read_log(p: &Path) -> Vec<LogEntry> {
    let mut v: Vec<LogEntry> = Vec::new();
    if let Ok(s) = std::fs::read_to_string(p) {
        for l in s.lines() {
            let parts: Vec<&str> = l.split_whitespace().collect();
            match parts.as_slice() {
                ["I", n, size, val] => {
                    if let (Ok(n), Ok(size), Ok(val)) = (n.parse(), size.parse(), val.parse()) {
                        v.push(LogEntry { n, size, val, acked: false });
                    }
                }
                ["A", n] => {
                    if let Ok(n) = n.parse::<u64>() {
                        if let Some(e) = v.iter_mut().rev().find(|e| e.n == n) {
                            e.acked = true;
                        }
                    }
                }
                _ => {}
            }
        }
    }
    v
}

fn kill_round(root: &Path, seed: u64, start: u64, delay_us: u64) -> Result<(), String> {
    let exe = std::env::current_exe().map_err(|e| e.to_string())?;
    let mut child = std::process::Command::new(exe)
        .arg("c06child")
        .arg(root)
        .arg(seed.to_string())
        .arg(start.to_string())
        .stdin(std::process::Stdio::null())
        .stdout(std::process::Stdio::null())
        .stderr(std::process::Stdio::null())
        .spawn()
        .map_err(|e| e.to_string())?;
    // wait for readiness, then the random delay
    let log = root.join("ops.log");
    let t0 = std::time::Instant::now();
    let before = std::fs::metadata(&log).map(|m| m.len()).unwrap_or(0);
    loop {
        let now = std::fs::metadata(&log).map(|m| m.len()).unwrap_or(0);
        if now > before {
            break;
        }
        if t0.elapsed() > Duration::from_secs(20) {
            let _ = child.kill();
            let _ = child.wait();
            return Err("child did not become ready".into());
        }
        if let Ok(Some(st)) = child.try_wait() {
            return Err(format!("child exited early: {:?}", st));
        }
        std::thread::sleep(Duration::from_micros(200));
    }
    std::thread::sleep(Duration::from_micros(delay_us));
    unsafe {
        libc::kill(child.id() as i32, libc::SIGKILL);
    }
    let _ = child.wait();
    Ok(())
}

struct KillOut {
    violation: Option<(String, String)>,
    acked: u64,
    invoked: u64,
    mid_op: bool,
    quarantined: u64,
    recovered_from_quarantine: u64,
}

async fn verify(root: &Path, validate: bool, round: u64) -> KillOut {
    let mut out = KillOut { violation: None, acked: 0, invoked: 0, mid_op: false, quarantined: 0, recovered_from_quarantine: 0 };
    let db = root.join("db");
    let entries = read_log(&root.join("ops.log"));
    out.invoked = entries.len() as u64;
    out.acked = entries.iter().filter(|e| e.acked).count() as u64;
    out.mid_op = entries.last().map(|e| !e.acked).unwrap_or(false);
    let mut s: Storage<ArrayKey<8>> = match builder(&db, validate).build() {
        Ok(s) => s,
        Err(e) => {
            out.violation = Some(("build".into(), format!("{:#}", e)));
            return out;
        }
    };
    if let Err(e) = s.init().await {
        out.violation = Some(("init-failed-after-kill".into(), format!("init failed after SIGKILL (round {}): {:#}", round, e)));
        return out;
    }
    out.quarantined = s.corrupted_blobs_count() as u64;
    // records recoverable from quarantined files
    let mut recovered: std::collections::BTreeMap<Vec<u8>, Vec<u8>> = Default::default();
    if let Ok(rd) = std::fs::read_dir(db.join("corrupted")) {
        for e in rd.flatten() {
            let p = e.path();
            if p.extension().and_then(|x| x.to_str()) != Some("blob") {
                continue;
            }
            let outp = root.join(format!("recovered-{}", e.file_name().to_string_lossy()));
            let _ = std::fs::remove_file(&outp);
            let r = pearl::tools::recovery_blob(&p, &outp, 0, true);
            if r.is_ok() {
                if let Ok(bp) = parse::parse_blob_file(&outp) {
                    for rec in bp.records.iter().filter(|r| r.header_crc_ok && r.data_crc_ok) {
                        recovered.insert(rec.key.clone(), rec.data.clone());
                    }
                }
            }
        }
    }
    let mut missing = 0u64;
    for e in entries.iter() {
        let exp = value_bytes(e.val, e.size);
        let got = s.read(key_of(e.n)).await;
        match (&got, e.acked) {
            (Ok(ReadResult::Found(b)), _) if b.as_ref() == exp.as_slice() => {}
            (Ok(ReadResult::Found(b)), _) => {
                out.violation = Some(("wrong-bytes-served-after-kill".into(), format!("record {} ({} B) is served with wrong bytes ({} B)", e.n, e.size, b.len())));
                break;
            }
            (_, false) => {} // not acknowledged: may be absent
            (other, true) => {
                let rk = e.n.to_be_bytes().to_vec();
                if recovered.get(&rk).map(|d| d == &exp).unwrap_or(false) {
                    out.recovered_from_quarantine += 1;
                } else {
                    missing += 1;
                    let desc = match other {
                        Ok(r) => format!("{:?}", r.is_found()),
                        Err(e) => format!("Err({:#})", e),
                    };
                    out.violation = Some(("acked-record-lost-after-kill".into(), format!("acknowledged record {} ({} B) is neither served ({}) nor recoverable from a quarantined blob; {} quarantined blobs, round {}", e.n, e.size, desc, out.quarantined, round)));
                    break;
                }
            }
        }
    }
    let _ = missing;
    // writes after recovery survive two further restarts
    if out.violation.is_none() {
        let base = 1u64 << 40;
        for i in 0..3u64 {
            let k = base + round * 10 + i;
            if let Err(e) = s.write(key_of(k), Bytes::from(value_bytes(k, 40)), BlobRecordTimestamp::new(1)).await {
                out.violation = Some(("write-after-recovery-failed".into(), format!("{:#}", e)));
            }
        }
    }
    let _ = s.close().await;
    if out.violation.is_none() {
        for restart in 0..2 {
            let mut s: Storage<ArrayKey<8>> = builder(&db, validate).build().unwrap();
            if let Err(e) = s.init().await {
                out.violation = Some(("init-failed-after-recovery".into(), format!("restart {} after recovery: {:#}", restart, e)));
                break;
            }
            let base = 1u64 << 40;
            for i in 0..3u64 {
                let k = base + round * 10 + i;
                match s.read(key_of(k)).await {
                    Ok(ReadResult::Found(b)) if b.as_ref() == value_bytes(k, 40).as_slice() => {}
                    _ => out.violation = Some(("post-recovery-write-lost".into(), format!("a record written after recovery is not served after restart {}", restart))),
                }
            }
            let _ = s.close().await;
        }
    }
    out
}

pub fn run(ctx: &Ctx, sh: &mut Shard, rng: &mut Rng) {
    let mut kills = 0u64;
    while ctx.time_left() {
        let root = new_dir("c06k-");
        let seed = rng.next() & 0xffff_ffff;
        let rounds = rng.range(1, 3);
        let mut start = 0u64;
        for round in 0..rounds {
            if !ctx.time_left() {
                break;
            }
            let delay = match rng.below(4) {
                0 => rng.range(0, 300),
                1 => rng.range(300, 3000),
                _ => rng.range(3000, 40_000),
            };
            if let Err(e) = kill_round(&root, seed, start, delay) {
                sh.inconclusive.push(format!("kill harness: {}", e));
                break;
            }
            kills += 1;
            let validate = rng.chance(1, 2);
            let root2 = root.clone();
            let res = block_on_catch(true, async move { verify(&root2, validate, round).await });
            sh.evaluations += 1;
            let replay = json!({"check": "c06-kill", "seed": seed, "round": round, "delay_us": delay, "validate": validate});
            match res {
                Ok(out) => {
                    sh.add("kill_acked_records_checked", out.acked);
                    sh.add("kill_invoked_records", out.invoked);
                    sh.add("kill_blobs_quarantined", out.quarantined);
                    sh.add("kill_records_recovered_by_tool", out.recovered_from_quarantine);
                    if out.mid_op {
                        sh.add("kills_mid_operation", 1);
                        sh.nontrivial.insert(fnv(format!("k{}-{}-{}", seed, round, delay).as_bytes()));
                    }
                    if let Some((sig, detail)) = out.violation {
                        let mut detail = detail;
                        if std::env::var("PV_KEEP").is_ok() {
                            let keep = std::path::PathBuf::from(format!("/tmp/pv-keep-{}-{}", std::process::id(), kills));
                            let _ = std::process::Command::new("cp").arg("-r").arg(&root).arg(&keep).status();
                            detail.push_str(&format!(" [kept {}]", keep.display()));
                        }
                        sh.violation(&ctx.known, "C06", ctx.seed, &format!("C06/kill/{}", sig), &detail, replay);
                        break;
                    }
                    start = (round + 1) * 1_000_000;
                }
                Err(p) => {
                    sh.violation(&ctx.known, "C06", ctx.seed, "C06/kill/panic", &p, replay);
                    break;
                }
            }
        }
        rm_dir(&root);
    }
    sh.add("kills", kills);
}

/// debug helper: `pv c06verify <root> <round>`
pub fn verify_main(args: &[String]) -> i32 {
    let root = PathBuf::from(&args[0]);
    let round: u64 = args[1].parse().unwrap_or(0);
    let validate = args.get(2).map(|v| v == "1").unwrap_or(false);
    let out = block_on_catch(true, async move { verify(&root, validate, round).await });
    match out {
        Ok(o) => {
            println!("acked={} invoked={} quarantined={} recovered={} violation={:?}", o.acked, o.invoked, o.quarantined, o.recovered_from_quarantine, o.violation);
            0
        }
        Err(p) => {
            println!("panic {}", p);
            1
        }
    }
}
