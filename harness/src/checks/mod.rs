pub mod common;
pub mod modelchk;
pub mod c01;

use crate::evidence::Shard;
use crate::runner::{Ctx, Plan};

pub fn plan_for(id: &str) -> Option<Plan> {
    Some(match id {
        "C01" => c01::plan(),
        _ => return None,
    })
}

pub fn shard_for(id: &str, ctx: &Ctx) -> Option<Shard> {
    Some(match id {
        "C01" => c01::shard(ctx),
        _ => return None,
    })
}
