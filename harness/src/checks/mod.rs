pub mod common;
pub mod modelchk;
pub mod c01;
pub mod c02;
pub mod c03;
pub mod c04;
pub mod c05;
pub mod c06;
pub mod c06_kill;
pub mod c07;
pub mod c08;
pub mod c09;
pub mod c10;
pub mod c11;
pub mod c12;
pub mod c13;
pub mod c14;
pub mod c15;
pub mod c16;
pub mod c17;

use crate::evidence::Shard;
use crate::runner::{Ctx, Plan};

pub fn plan_for(id: &str) -> Option<Plan> {
    Some(match id {
        "C01" => c01::plan(),
        "C02" => c02::plan(),
        "C03" => c03::plan(),
        "C04" => c04::plan(),
        "C05" => c05::plan(),
        "C06" => c06::plan(),
        "C07" => c07::plan(),
        "C08" => c08::plan(),
        "C09" => c09::plan(),
        "C10" => c10::plan(),
        "C11" => c11::plan(),
        "C12" => c12::plan(),
        "C13" => c13::plan(),
        "C14" => c14::plan(),
        "C15" => c15::plan(),
        "C16" => c16::plan(),
        "C17" => c17::plan(),
        _ => return None,
    })
}

pub fn shard_for(id: &str, ctx: &Ctx) -> Option<Shard> {
    Some(match id {
        "C01" => c01::shard(ctx),
        "C02" => c02::shard(ctx),
        "C03" => c03::shard(ctx),
        "C04" => c04::shard(ctx),
        "C05" => c05::shard(ctx),
        "C06" => c06::shard(ctx),
        "C07" => c07::shard(ctx),
        "C08" => c08::shard(ctx),
        "C09" => c09::shard(ctx),
        "C10" => c10::shard(ctx),
        "C11" => c11::shard(ctx),
        "C12" => c12::shard(ctx),
        "C13" => c13::shard(ctx),
        "C14" => c14::shard(ctx),
        "C15" => c15::shard(ctx),
        "C16" => c16::shard(ctx),
        "C17" => c17::shard(ctx),
        _ => return None,
    })
}
