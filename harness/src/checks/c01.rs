//! C01 - latest-version read: read/contains return the top-ranked record of a key.

use super::modelchk::{no_tweak, Spec};
use crate::drive::{Class, S_CONTAINS, S_READ};
use crate::evidence::{Meta, Shard};
use crate::ops::Profile;
use crate::runner::{Ctx, Plan};

pub fn plan() -> Plan {
    Plan {
        meta: Meta {
            property: "C01",
            level: "exploration",
            rule: "model differential: after EVERY step of a history, read() and contains() for every key of the universe and two never-written keys are compared with the sequential reference model (rank = ts desc, blob id desc, append pos desc). Histories: (a) seeded random (2-4 keys, timestamps 0..4, puts/deletes/bursts of 6-12 tied versions/rotations/close/restore/dump/eager+lazy restart with random index removal) over key length {4,8,32} x bloom on/off x group size x runtime flavour; (b) ALL histories of fixed length over a 6-symbol alphabet for one key (every shorter history is a checked prefix). A quarter of the random histories rotate automatically (record limit 1-4 or size limit 100-900 bytes with a 0 ms rotation debounce; every rotation the worker performs is mirrored into the model, a rotation below the limit is a mismatch); one in eight starts with 9-14 small blobs (two-digit blob ids, several filter levels); one in twelve starts with a fat blob of 70-140 records (multi-leaf on-disk index). A history counts as non-trivial when some key had >=2 records with equal top timestamp or records in >=2 blobs; distinct = hash of (history, configuration).",
            assumptions: vec![
                "rotation is driven through the lifecycle API / worker barrier (automatic size rotation is time-debounced; exercised in C08/C13)",
                "verdict holds for the executions produced by this seed only",
            ],
        },
        shards: 16,
        soft_s: (22, 420),
        exhaustive: None,
        min_evaluations: 200,
        extra: None,
    }
}

pub fn spec() -> Spec {
    Spec {
        property: "C01",
        check_name: "c01",
        profile: Profile::c01(),
        surface: S_READ | S_CONTAINS,
        owned: vec![Class::Read, Class::Contains],
        nontrivial_rule: 1,
        dup: None,
        enumerate_len: (5, 6),
        max_random: (100_000, 10_000_000),
        tweak_cfg: no_tweak,
    }
}

pub fn shard(ctx: &Ctx) -> Shard {
    super::modelchk::shard(ctx, &spec())
}
