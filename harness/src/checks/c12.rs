//! C12 - sync discipline: bounded un-synced data and write ordering for durability.

use super::common::random_cfg;
use crate::drive::{Cfg, Driver, Mismatch};
use crate::evidence::{Meta, Shard};
use crate::ops::{gen_history, history_json, history_short, Op, Profile};
use crate::rng::{fnv, Rng};
use crate::runner::{block_on_catch, new_dir, rm_dir, Ctx, Plan};
use crate::tap::Trace;
use pearl::verif::tap;
use serde_json::json;

pub fn plan() -> Plan {
    Plan {
        meta: Meta {
            property: "C12",
            level: "exploration",
            rule: "offline/online checker over the complete ordered I/O tap trace (every create, write with offset/length/payload, sync, positional rewrite) of sequential histories with a worker barrier after each step, for dirty-byte limits {0, 1, 100, 4096, 1 MiB, default}: (1) after every acknowledged write/delete + one barrier the active blob's un-synced bytes (file length minus length covered by the last completed sync, ground truth from the trace) are <= the limit; (2) in every blob file a sync covering the header precedes the first record write; (3) whenever an index header with the written bit is written, the blob_size parsed from the written bytes is <= the synced length of the blob file at that point of the trace; (4) after Ok from fsyncdata(), try_close_active_blob() and close() no un-synced bytes of that blob remain. Plus a kill-image scenario (the history is not closed; a copy of the directory is opened under a fresh trace whose files start with the synced lengths of the first trace; rule (3) must hold for every index the recovery regenerates and dumps), a pending-sync-then-close scenario (a write crosses the limit and the active blob is closed at once, three times; a new blob then receives more than the limit: background syncs must still happen), and a concurrent scenario (4-24 writer tasks, limits {0,100,4096,65536}): once all clients are done and the worker is idle, rule (1) must hold with no further client action. Histories: puts of 8 B..200 KiB, deletes (also into closed blobs), rotations, force updates, dumps, restarts. Non-trivial = history in which at least one sync was triggered by the dirty-byte limit or an index header was checked; distinct = hash(history, limit).",
            assumptions: vec!["a sync event covers the file length observed under the per-file tap lock right before sync_all", "bytes present at (re)open are durable", "verdict holds for the traces produced for this seed"],
        },
        shards: 16,
        soft_s: (24, 420),
        exhaustive: None,
        min_evaluations: 200,
        extra: None,
    }
}

fn profile() -> Profile {
    Profile {
        n_keys: 4, ts_max: 5, n_meta: 1, len_min: 8, len_max: 30,
        w_put: 40, w_put_meta: 4, w_del: 12, w_del_meta: 0, w_burst: 1, w_rotate: 8,
        w_close: 4, w_create: 3, w_restore: 3, w_bg: 3, w_force: 4, w_dump: 5, w_dump_nowait: 2,
        w_offload: 0, w_fsync: 10, w_restart: 4, restart_rm_idx: true, big_values: true,
    }
}

struct Out {
    violation: Option<(String, String)>,
    desync: Option<Mismatch>,
    events: u64,
    writes: u64,
    syncs: u64,
    idx_headers: u64,
    limit_syncs: u64,
    rule1_checks: u64,
    rule4_checks: u64,
}

async fn run<const N: usize>(d: &mut Driver<N>, ops: &[Op], limit: u64) -> Out {
    let mut out = Out { violation: None, desync: None, events: 0, writes: 0, syncs: 0, idx_headers: 0, limit_syncs: 0, rule1_checks: 0, rule4_checks: 0 };
    let mut trace = Trace::new(true, false);
    tap::arm(&d.dir, true, false);
    macro_rules! bail {
        ($m:expr) => {{
            out.desync = Some($m);
            let ev = tap::disarm(&d.dir);
            trace.feed(&ev);
            fill(&mut out, &trace);
            return out;
        }};
    }
    if let Err(m) = d.open(false).await {
        bail!(m);
    }
    let active_path = |d: &Driver<N>| d.model.active.map(|a| d.dir.join(format!("t.{}.blob", a)));
    for op in ops {
        let active_before = active_path(d);
        let syncs_before = trace.syncs_seen;
        if let Err(m) = d.step(op).await {
            bail!(m);
        }
        // events recorded up to the moment the call returned: what the call itself guarantees, before the
        // worker's follow-up work (the index dump of a closed blob syncs the blob once more)
        let mut returned_at = tap::count(&d.dir);
        // the barrier waits for the background sync task. Normally that takes milliseconds; if it is still pending
        // after 5 s the trace is looked at: hundreds of syncs of blob files without a single write in between mean that
        // the background sync does not converge (it would also keep close() from returning)
        let barrier_ok = {
            let fut = d.st().verif_barrier(true);
            tokio::pin!(fut);
            let (syncs0, writes0) = (trace.syncs_seen, trace.writes_seen);
            let mut ticks = 0u32;
            loop {
                tokio::select! {
                    r = &mut fut => break Some(r),
                    _ = tokio::time::sleep(std::time::Duration::from_millis(500)) => {
                        ticks += 1;
                        if ticks >= 10 {
                            let ev = tap::drain(&d.dir);
                            trace.feed(&ev);
                            returned_at = 0;
                            if trace.syncs_seen - syncs0 >= 200 && trace.writes_seen == writes0 {
                                break None;
                            }
                            if ticks >= 240 {
                                break Some(false);
                            }
                        }
                    }
                }
            }
        };
        match barrier_ok {
            Some(true) => {}
            Some(false) => bail!(Mismatch { class: crate::drive::Class::Worker, sig: "worker-dead".into(), detail: "worker dead or barrier pending for 120 s".into(), step: d.step }),
            None => {
                out.violation = Some(("c12/background-sync-does-not-converge".into(), format!("after step {} ({}) the worker's background sync task did not finish within 5 s and issued {} syncs without any write in between (dirty-byte limit {}): it syncs forever", d.step, op.short(), trace.syncs_seen, limit)));
                let ev = tap::disarm(&d.dir);
                trace.feed(&ev);
                fill(&mut out, &trace);
                // the storage is left as it is: its close() would wait for the same task
                std::mem::forget(d.storage.take());
                return out;
            }
        }
        let ev = tap::drain(&d.dir);
        if let Op::Close = op {
            let cut = returned_at.min(ev.len());
            trace.feed(&ev[..cut]);
            if let (Some(p), None) = (active_before.clone(), active_path(d)) {
                if let Some(dirty) = trace.dirty(&p) {
                    out.rule4_checks += 1;
                    if dirty > 0 {
                        out.violation = Some(("c12/close-active-left-dirty-bytes".into(), format!("try_close_active_blob() returned Ok while {} bytes of {} were un-synced (they were synced only later, by the worker's index dump)", dirty, p.display())));
                        break;
                    }
                }
            }
            trace.feed(&ev[cut..]);
        } else {
            trace.feed(&ev);
        }
        if let Some(v) = trace.violations.first() {
            out.violation = Some((v.rule.clone(), format!("after step {} ({}): {}", d.step, op.short(), v.detail)));
            break;
        }
        match op {
            Op::Put { .. } | Op::Del { .. } => {
                if let Some(p) = active_path(d) {
                    if let Some(dirty) = trace.dirty(&p) {
                        out.rule1_checks += 1;
                        if trace.syncs_seen > syncs_before {
                            out.limit_syncs += 1;
                        }
                        if dirty > limit {
                            let cls = if limit == 0 { "limit0" } else { "limitN" };
                            out.violation = Some((format!("c12/dirty-above-limit/{}", cls), format!("after step {} ({}) and a worker barrier the active blob {} has {} un-synced bytes, limit {}", d.step, op.short(), p.display(), dirty, limit)));
                            break;
                        }
                    }
                }
            }
            Op::Fsync => {
                if let Some(p) = active_path(d) {
                    if let Some(dirty) = trace.dirty(&p) {
                        out.rule4_checks += 1;
                        if dirty > 0 {
                            out.violation = Some(("c12/explicit-fsyncdata-left-dirty-bytes".into(), format!("fsyncdata() returned Ok but {} un-synced bytes of the active blob {} remain (limit {})", dirty, p.display(), limit)));
                            break;
                        }
                    }
                }
            }
            Op::Close => {
                // the blob that was active before the call
                if let (Some(p), None) = (active_before, active_path(d)) {
                    if let Some(dirty) = trace.dirty(&p) {
                        out.rule4_checks += 1;
                        if dirty > 0 {
                            out.violation = Some(("c12/close-active-left-dirty-bytes".into(), format!("try_close_active_blob() returned Ok but {} un-synced bytes of {} remain", dirty, p.display())));
                            break;
                        }
                    }
                }
            }
            Op::Restart { .. } => {
                // Storage::close() of the previous session: every blob that was active then is fully synced
                if let Some(p) = active_before {
                    if let Some(dirty) = trace.dirty(&p) {
                        out.rule4_checks += 1;
                        if dirty > 0 {
                            out.violation = Some(("c12/close-left-dirty-bytes".into(), format!("close() returned Ok but {} un-synced bytes of the active blob {} remain", dirty, p.display())));
                            break;
                        }
                    }
                }
            }
            _ => {}
        }
    }
    if out.violation.is_none() {
        let active_before = active_path(d);
        if let Err(m) = d.close().await {
            bail!(m);
        }
        let ev = tap::drain(&d.dir);
        trace.feed(&ev);
        if let Some(v) = trace.violations.first() {
            out.violation = Some((v.rule.clone(), format!("at close: {}", v.detail)));
        } else if let Some(p) = active_before {
            if let Some(dirty) = trace.dirty(&p) {
                out.rule4_checks += 1;
                if dirty > 0 {
                    out.violation = Some(("c12/close-left-dirty-bytes".into(), format!("close() returned Ok but {} un-synced bytes of the active blob {} remain", dirty, p.display())));
                }
            }
        }
    } else if let Some(s) = d.storage.take() {
        let _ = s.close().await;
    }
    let _ = tap::disarm(&d.dir);
    fill(&mut out, &trace);
    out
}

fn fill(out: &mut Out, t: &Trace) {
    out.events = t.events_seen;
    out.writes = t.writes_seen;
    out.syncs = t.syncs_seen;
    out.idx_headers = t.index_headers_checked;
}

/// Concurrent writers with a small dirty-byte limit: once all clients are done and the worker is idle
/// (barrier), the active blob's un-synced bytes must be within the limit - no further client action follows.
async fn concurrent_scenario(dir: std::path::PathBuf, cfg: Cfg, seed: u64, limit: u64) -> Result<(u64, u64), (String, String)> {
    use bytes::Bytes;
    use pearl::{ArrayKey, BlobRecordTimestamp, Storage};
    let mut rng = Rng::new(seed);
    let mut s: Storage<ArrayKey<8>> = crate::drive::builder_for(&cfg, &dir).build().map_err(|e| ("build".to_string(), format!("{:#}", e)))?;
    let mut trace = Trace::new(true, false);
    tap::arm(&dir, true, false);
    s.init().await.map_err(|e| ("init".to_string(), format!("{:#}", e)))?;
    let s = std::sync::Arc::new(s);
    // half of the scenarios: a few blob writes are held between the reservation of their offset and the
    // pwrite (failpoint delay), so that background syncs run while a reserved range has not landed yet
    if rng.chance(1, 2) {
        let mut faults = Vec::new();
        for _ in 0..rng.range(1, 4) {
            faults.push(tap::Fault { kinds: vec![tap::Kind::Write], suffix: ".blob".into(), nth: rng.range(1, 40), sticky: false, action: tap::Action::Delay(rng.range(2, 25)) });
        }
        tap::set_faults(&dir, faults);
    }
    // a third of the scenarios: one more client calls fsyncdata() now and then while the writers run, and blob
    // syncs are slow (delay failpoint), so that writes are acknowledged while an explicit sync is in progress
    let explicit_syncs = rng.chance(1, 3);
    if explicit_syncs {
        tap::set_faults(&dir, vec![tap::Fault { kinds: vec![tap::Kind::Sync], suffix: ".blob".into(), nth: 0, sticky: true, action: tap::Action::Delay(rng.range(2, 12)) }]);
    }
    let stop = std::sync::Arc::new(std::sync::atomic::AtomicBool::new(false));
    let syncer = if explicit_syncs {
        let (s2, stop2) = (s.clone(), stop.clone());
        let mut r = Rng::new(crate::rng::mix(seed, 0xF5));
        Some(tokio::spawn(async move {
            let mut n = 0u64;
            while !stop2.load(std::sync::atomic::Ordering::SeqCst) {
                let _ = s2.fsyncdata().await;
                n += 1;
                tokio::time::sleep(std::time::Duration::from_micros(r.range(100, 4000))).await;
            }
            n
        }))
    } else {
        None
    };
    let tasks = rng.range(4, 24);
    let mut hs = Vec::new();
    for t in 0..tasks {
        let s = s.clone();
        let mut r = Rng::new(crate::rng::mix(seed, t));
        hs.push(tokio::spawn(async move {
            for i in 0..r.range(3, 12) {
                let size = *r.pick(&[20usize, 200, 3000, 90_000]);
                let key = ArrayKey::<8>::from(crate::drive::key_bytes(3, (t * 100 + i) as u16, 8));
                let _ = s.write(&key, Bytes::from(crate::drive::value_bytes(t * 1000 + i + 1, size as u32)), BlobRecordTimestamp::new(i)).await;
                if r.chance(1, 3) {
                    tokio::task::yield_now().await;
                }
            }
        }));
    }
    // the explicit syncer stops (between two calls) BEFORE the last writers finish in half of these runs, after
    // them in the other half
    let stop_early = rng.chance(1, 2);
    let mut explicit_calls = 0u64;
    if stop_early {
        stop.store(true, std::sync::atomic::Ordering::SeqCst);
    }
    for h in hs {
        let _ = h.await;
    }
    stop.store(true, std::sync::atomic::Ordering::SeqCst);
    if let Some(h) = syncer {
        explicit_calls = h.await.unwrap_or(0);
    }
    let _ = explicit_calls;
    // worker idle: every requested background sync has finished
    s.verif_barrier(true).await;
    s.verif_barrier(true).await;
    let ev = tap::drain(&dir);
    trace.feed(&ev);
    let syncs = trace.syncs_seen;
    let writes = trace.writes_seen;
    let active = dir.join("t.0.blob");
    let dirty = trace.dirty(&active).unwrap_or(0);
    let s = std::sync::Arc::try_unwrap(s).map_err(|_| ("harness".to_string(), "storage shared".to_string()))?;
    let _ = s.close().await;
    let _ = tap::disarm(&dir);
    if let Some(v) = trace.violations.first() {
        return Err((format!("concurrent/{}", v.rule.trim_start_matches("c12/")), v.detail.clone()));
    }
    if dirty > limit {
        return Err(("concurrent/dirty-above-limit-at-quiescence".into(), format!("{} writer tasks finished, worker idle, but {} bytes of the active blob are un-synced (limit {}); {} writes, {} syncs in the trace", tasks, dirty, limit, writes, syncs)));
    }
    Ok((writes, syncs))
}

/// A background sync request is still queued when the client closes the active blob (the write that crossed the limit
/// has just returned; nothing waits for the worker in between): the sync task may find no active blob. Whatever it
/// does then, background syncs must go on afterwards: a new active blob is created, more than the limit is written
/// into it, and once the worker is idle its un-synced bytes must be within the limit with no further client action.
async fn pending_sync_then_close(dir: std::path::PathBuf, cfg: Cfg, limit: u64, yields: u32) -> Result<(u64, u64), (String, String)> {
    use bytes::Bytes;
    use pearl::{ArrayKey, BlobRecordTimestamp, Storage};
    let mut s: Storage<ArrayKey<8>> = crate::drive::builder_for(&cfg, &dir).build().map_err(|e| ("build".to_string(), format!("{:#}", e)))?;
    let mut trace = Trace::new(true, false);
    tap::arm(&dir, true, false);
    s.init().await.map_err(|e| ("init".to_string(), format!("{:#}", e)))?;
    let key = |k: u16| ArrayKey::<8>::from(crate::drive::key_bytes(5, k, 8));
    for round in 0..3u16 {
        // crosses the limit: a background sync is requested
        let _ = s.write(&key(round * 10), Bytes::from(crate::drive::value_bytes(round as u64 + 1, (limit + 200) as u32)), BlobRecordTimestamp::new(1)).await;
        for _ in 0..yields {
            tokio::task::yield_now().await;
        }
        let _ = s.try_close_active_blob().await;
        s.verif_barrier(true).await;
        let _ = s.try_create_active_blob().await;
    }
    // the blob created last: two records, each above the limit
    let _ = s.write(&key(100), Bytes::from(crate::drive::value_bytes(100, (limit + 300) as u32)), BlobRecordTimestamp::new(1)).await;
    let _ = s.write(&key(101), Bytes::from(crate::drive::value_bytes(101, (limit + 300) as u32)), BlobRecordTimestamp::new(1)).await;
    s.verif_barrier(true).await;
    s.verif_barrier(true).await;
    let ev = tap::drain(&dir);
    trace.feed(&ev);
    let (writes, syncs) = (trace.writes_seen, trace.syncs_seen);
    let active = crate::drive::dir_ids(&dir).into_iter().max().map(|id| dir.join(format!("t.{}.blob", id)));
    let dirty = active.as_ref().and_then(|a| trace.dirty(a)).unwrap_or(0);
    let _ = s.close().await;
    let _ = tap::disarm(&dir);
    if dirty > limit {
        return Err(("pending-sync-then-close/no-background-sync-afterwards".into(), format!("three times a write crossed the dirty-byte limit ({}) and the active blob was closed at once ({} yields in between); afterwards two records were written into a new active blob and the worker went idle: {} bytes of {:?} stay un-synced ({} writes, {} syncs in the trace)", limit, yields, dirty, active, writes, syncs)));
    }
    Ok((writes, syncs))
}

fn copy_dir(from: &std::path::Path, to: &std::path::Path) {
    let _ = std::fs::create_dir_all(to);
    if let Ok(rd) = std::fs::read_dir(from) {
        for e in rd.flatten() {
            let p = e.path();
            if p.is_file() {
                let _ = std::fs::copy(&p, to.join(e.file_name()));
            } else if p.is_dir() {
                copy_dir(&p, &to.join(e.file_name()));
            }
        }
    }
}

/// Recovery after a process kill: a history runs in directory A under the trace and is NOT closed; a copy of the
/// directory (the kill image) is opened as directory B with a fresh trace in which every file starts with the
/// synced length it had in A's trace (bytes beyond it reached the file but were never synced). Whatever the
/// recovery does - regenerating and dumping indexes at init, at the next dump request, at close - rule (3) must
/// hold on B's trace: an index is marked complete only after a sync covered the blob bytes it describes.
async fn kill_image_scenario(dir_a: std::path::PathBuf, dir_b: std::path::PathBuf, cfg: Cfg, ops: Vec<Op>, lazy: bool) -> Result<(u64, u64), (String, String)> {
    let mut trace_a = Trace::new(true, false);
    tap::arm(&dir_a, true, false);
    let mut d: Driver<8> = Driver::new(dir_a.clone(), cfg.clone(), 0xC12);
    d.model.relaxed = true;
    let r: Result<(), Mismatch> = async {
        d.open(false).await?;
        for op in ops.iter().filter(|o| !matches!(o, Op::Restart { .. })) {
            d.step(op).await?;
        }
        Ok(())
    }
    .await;
    if let Some(s) = d.storage.as_ref() {
        s.verif_barrier(true).await;
    }
    trace_a.feed(&tap::drain(&dir_a));
    if r.is_err() {
        if let Some(s) = d.storage.take() {
            let _ = s.close().await;
        }
        let _ = tap::disarm(&dir_a);
        return Ok((0, 0));
    }
    // the kill image
    copy_dir(&dir_a, &dir_b);
    if let Some(s) = d.storage.take() {
        let _ = s.close().await;
    }
    let _ = tap::disarm(&dir_a);
    let mut trace_b = Trace::new(true, false);
    let mut unsynced = 0u64;
    for (pa, fl) in trace_a.files.iter() {
        let rel = match pa.strip_prefix(&dir_a) {
            Ok(r) => r,
            Err(_) => continue,
        };
        let pb = dir_b.join(rel);
        if let Ok(content) = std::fs::read(&pb) {
            let len = content.len() as u64;
            let synced = fl.synced_len.min(len);
            unsynced += len - synced;
            trace_b.files.insert(pb.clone(), crate::tap::FileLog { path: pb, initial: content, len, synced_len: synced, ..Default::default() });
        }
    }
    tap::arm(&dir_b, true, false);
    let mut l: crate::drive::Loose<8> = crate::drive::Loose::new(dir_b.clone(), cfg.clone());
    let res: Result<(), (String, String)> = async {
        l.open(lazy).await.map_err(|e| ("kill-image/init-failed".to_string(), e))?;
        l.barrier().await;
        let _ = l.exec(&Op::Dump).await;
        l.barrier().await;
        let _ = l.exec(&Op::Close).await;
        l.barrier().await;
        l.close().await.map_err(|e| ("kill-image/close-failed".to_string(), e))?;
        Ok(())
    }
    .await;
    trace_b.feed(&tap::disarm(&dir_b));
    if let Err((sig, e)) = res {
        // init / close errors on a kill image are C06's subject
        let _ = (sig, e);
        return Ok((0, 0));
    }
    if let Some(v) = trace_b.violations.iter().find(|v| v.rule == "c12/index-complete-before-blob-synced") {
        return Err(("kill-image/index-complete-before-blob-synced".into(), format!("recovery after a process kill ({} bytes were written but not synced at the kill): {}", unsynced, v.detail)));
    }
    Ok((trace_b.index_headers_checked, unsynced))
}

pub fn shard(ctx: &Ctx) -> Shard {
    let mut sh = Shard::default();
    let mut rng = Rng::new(ctx.shard_seed());
    let p = profile();
    let limits: [Option<u64>; 6] = [Some(0), Some(1), Some(100), Some(4096), Some(1 << 20), None];
    let mut n = 0u64;
    while ctx.time_left() {
        if n % 10 == 8 {
            let mut cfg: Cfg = random_cfg(&mut rng, p.n_keys, p.n_meta, Some(true));
            cfg.keylen = 8;
            cfg.max_dirty = *rng.pick(&[None, Some(1u64 << 20), Some(4096)]);
            let ops = gen_history(&mut rng, &p);
            let lazy = rng.chance(1, 2);
            let (dir_a, dir_b) = (new_dir("c12k-"), new_dir("c12kb-"));
            let r = block_on_catch(cfg.mt, kill_image_scenario(dir_a.clone(), dir_b.clone(), cfg.clone(), ops.clone(), lazy));
            rm_dir(&dir_a);
            rm_dir(&dir_b);
            n += 1;
            sh.evaluations += 1;
            let replay = json!({"check": "c12-kill-image", "cfg": cfg.to_json(), "history": history_json(&ops), "short": history_short(&ops), "lazy": lazy});
            match r {
                Ok(Ok((headers, unsynced))) => {
                    sh.add("kill_image_scenarios", 1);
                    sh.add("kill_image_index_headers_checked", headers);
                    if unsynced > 0 {
                        sh.add("kill_images_with_unsynced_bytes", 1);
                        if headers > 0 {
                            sh.nontrivial.insert(fnv(format!("ki|{}|{}", history_short(&ops), lazy).as_bytes()));
                        }
                    }
                }
                Ok(Err((sig, d))) => sh.violation(&ctx.known, "C12", ctx.seed, &format!("C12/{}", sig), &d, replay),
                Err(p) => sh.violation(&ctx.known, "C12", ctx.seed, "C12/kill-image/panic", &p, replay),
            }
            continue;
        }
        if n % 10 == 7 {
            let mut cfg: Cfg = random_cfg(&mut rng, 4, 0, Some(true));
            cfg.keylen = 8;
            let limit = *rng.pick(&[100u64, 1000, 4096]);
            cfg.max_dirty = Some(limit);
            cfg.mt = rng.chance(1, 2);
            let yields = rng.below(3) as u32;
            let dir = new_dir("c12p-");
            let r = block_on_catch(cfg.mt, pending_sync_then_close(dir.clone(), cfg.clone(), limit, yields));
            rm_dir(&dir);
            n += 1;
            sh.evaluations += 1;
            sh.add("pending_sync_then_close_scenarios", 1);
            sh.nontrivial.insert(fnv(format!("psc|{}|{}|{}|{}", limit, yields, cfg.mt, n).as_bytes()));
            let replay = json!({"check": "c12-pending-sync-then-close", "cfg": cfg.to_json(), "limit": limit, "yields": yields});
            match r {
                Ok(Ok((w, sy))) => {
                    sh.add("concurrent_writes_traced", w);
                    sh.add("concurrent_syncs_traced", sy);
                }
                Ok(Err((sig, d))) => sh.violation(&ctx.known, "C12", ctx.seed, &format!("C12/{}", sig), &d, replay),
                Err(p) => sh.violation(&ctx.known, "C12", ctx.seed, "C12/pending-sync-then-close/panic", &p, replay),
            }
            continue;
        }
        if n % 10 == 9 {
            let mut cfg: Cfg = random_cfg(&mut rng, 4, 0, Some(true));
            cfg.keylen = 8;
            let limit = *rng.pick(&[0u64, 100, 4096, 65536]);
            cfg.max_dirty = Some(limit);
            let seed = rng.next();
            let dir = new_dir("c12c-");
            let r = block_on_catch(cfg.mt, concurrent_scenario(dir.clone(), cfg.clone(), seed, limit));
            rm_dir(&dir);
            n += 1;
            sh.evaluations += 1;
            sh.add("concurrent_scenarios", 1);
            sh.nontrivial.insert(seed);
            let replay = json!({"check": "c12-concurrent", "cfg": cfg.to_json(), "seed": seed});
            match r {
                Ok(Ok((w, sy))) => {
                    sh.add("concurrent_writes_traced", w);
                    sh.add("concurrent_syncs_traced", sy);
                }
                Ok(Err((sig, d))) => sh.violation(&ctx.known, "C12", ctx.seed, &format!("C12/{}", sig), &d, replay),
                Err(p) => sh.violation(&ctx.known, "C12", ctx.seed, "C12/concurrent/panic", &p, replay),
            }
            continue;
        }
        let mut cfg: Cfg = random_cfg(&mut rng, p.n_keys, p.n_meta, Some(true));
        cfg.keylen = 8;
        cfg.max_dirty = limits[(n % 6) as usize];
        let limit = cfg.max_dirty.unwrap_or(32 * 1024 * 1024);
        let ops = gen_history(&mut rng, &p);
        let hid = ((ctx.shard as u64) << 20) | n;
        let dir = new_dir("c12-");
        let mut d: Driver<8> = Driver::new(dir.clone(), cfg.clone(), hid);
        let r = block_on_catch(cfg.mt, run(&mut d, &ops, limit));
        rm_dir(&dir);
        n += 1;
        sh.evaluations += 1;
        let replay = json!({"check": "c12", "cfg": cfg.to_json(), "hist_id": hid, "history": history_json(&ops), "short": history_short(&ops)});
        match r {
            Ok(out) => {
                sh.add("tap_events", out.events);
                sh.add("tap_writes", out.writes);
                sh.add("tap_syncs", out.syncs);
                sh.add("index_headers_checked", out.idx_headers);
                sh.add("syncs_triggered_by_limit", out.limit_syncs);
                sh.add("rule1_dirty_bound_checks", out.rule1_checks);
                sh.add("rule4_explicit_sync_checks", out.rule4_checks);
                sh.add(&format!("histories_limit_{}", cfg.max_dirty.map(|l| l.to_string()).unwrap_or("default".into())), 1);
                if out.limit_syncs > 0 || out.idx_headers > 0 {
                    sh.nontrivial.insert(fnv(format!("{}|{:?}", history_short(&ops), cfg.max_dirty).as_bytes()));
                }
                if sh.samples.is_empty() {
                    sh.sample(json!({"limit": cfg.max_dirty, "history": history_short(&ops), "tap_events": out.events, "syncs": out.syncs}));
                }
                if let Some(m) = out.desync {
                    sh.add("desync_histories", 1);
                    if sh.notes.len() < 4 {
                        sh.notes.push(format!("history abandoned ({}): {}", m.class.name(), m.detail));
                    }
                }
                if let Some((sig, detail)) = out.violation {
                    sh.violation(&ctx.known, "C12", ctx.seed, &format!("C12/{}", sig.trim_start_matches("c12/")), &detail, replay);
                }
            }
            Err(p) => sh.violation(&ctx.known, "C12", ctx.seed, "C12/panic", &p, replay),
        }
    }
    sh
}
