//! Operations of a history, seeded generators and the exhaustive small-history enumerator.

use crate::rng::Rng;
use serde_json::{json, Value};

#[derive(Clone, Debug, PartialEq, Eq)]
pub enum Op {
    /// write / write_with (meta None = `write`)
    Put { k: u16, ts: u64, meta: Option<u8>, size: u32 },
    Del { k: u16, ts: u64, meta: Option<u8>, only_if: bool },
    Close,
    Create,
    Restore,
    CloseBg,
    CreateBg,
    RestoreBg,
    ForceUpdate { pred: bool },
    /// free_excess_resources + barrier (all closed blobs' indexes end on disk)
    Dump,
    /// free_excess_resources without waiting: the dump races with what follows
    DumpNoWait,
    Offload { needed: u32, level: u8 },
    Fsync,
    /// clean close + reopen; `rm_idx` bit i set = remove index file of blob id i before reopening
    Restart { lazy: bool, rm_idx: u64 },
}

impl Op {
    pub fn to_json(&self) -> Value {
        match self {
            Op::Put { k, ts, meta, size } => json!({"op":"put","k":k,"ts":ts,"meta":meta,"size":size}),
            Op::Del { k, ts, meta, only_if } => json!({"op":"del","k":k,"ts":ts,"meta":meta,"only_if":only_if}),
            Op::Close => json!({"op":"close_active"}),
            Op::Create => json!({"op":"create_active"}),
            Op::Restore => json!({"op":"restore_active"}),
            Op::CloseBg => json!({"op":"close_active_bg"}),
            Op::CreateBg => json!({"op":"create_active_bg"}),
            Op::RestoreBg => json!({"op":"restore_active_bg"}),
            Op::ForceUpdate { pred } => json!({"op":"force_update","pred":pred}),
            Op::Dump => json!({"op":"dump"}),
            Op::DumpNoWait => json!({"op":"dump_nowait"}),
            Op::Offload { needed, level } => json!({"op":"offload","needed":needed,"level":level}),
            Op::Fsync => json!({"op":"fsync"}),
            Op::Restart { lazy, rm_idx } => json!({"op":"restart","lazy":lazy,"rm_idx":rm_idx}),
        }
    }

    pub fn from_json(v: &Value) -> Option<Op> {
        let op = v.get("op")?.as_str()?;
        let u = |n: &str| v.get(n).and_then(|x| x.as_u64());
        let b = |n: &str| v.get(n).and_then(|x| x.as_bool());
        let meta = v.get("meta").and_then(|x| x.as_u64()).map(|m| m as u8);
        Some(match op {
            "put" => Op::Put { k: u("k")? as u16, ts: u("ts")?, meta, size: u("size")? as u32 },
            "del" => Op::Del { k: u("k")? as u16, ts: u("ts")?, meta, only_if: b("only_if")? },
            "close_active" => Op::Close,
            "create_active" => Op::Create,
            "restore_active" => Op::Restore,
            "close_active_bg" => Op::CloseBg,
            "create_active_bg" => Op::CreateBg,
            "restore_active_bg" => Op::RestoreBg,
            "force_update" => Op::ForceUpdate { pred: b("pred")? },
            "dump" => Op::Dump,
            "dump_nowait" => Op::DumpNoWait,
            "offload" => Op::Offload { needed: u("needed")? as u32, level: u("level")? as u8 },
            "fsync" => Op::Fsync,
            "restart" => Op::Restart { lazy: b("lazy")?, rm_idx: u("rm_idx")? },
            _ => return None,
        })
    }

    pub fn short(&self) -> String {
        match self {
            Op::Put { k, ts, meta, size } => format!("P{}@{}{}:{}", k, ts, meta.map(|m| format!("m{}", m)).unwrap_or_default(), size),
            Op::Del { k, ts, meta, only_if } => format!("D{}@{}{}{}", k, ts, meta.map(|m| format!("m{}", m)).unwrap_or_default(), if *only_if { "?" } else { "" }),
            Op::Close => "Cl".into(),
            Op::Create => "Cr".into(),
            Op::Restore => "Rs".into(),
            Op::CloseBg => "ClB".into(),
            Op::CreateBg => "CrB".into(),
            Op::RestoreBg => "RsB".into(),
            Op::ForceUpdate { pred } => format!("FU{}", *pred as u8),
            Op::Dump => "Dmp".into(),
            Op::DumpNoWait => "Dmp~".into(),
            Op::Offload { needed, level } => format!("Off{}/{}", needed, level),
            Op::Fsync => "Fs".into(),
            Op::Restart { lazy, rm_idx } => format!("RST{}{:x}", if *lazy { "L" } else { "E" }, rm_idx),
        }
    }
}

pub fn history_json(h: &[Op]) -> Value {
    Value::Array(h.iter().map(|o| o.to_json()).collect())
}

pub fn history_from_json(v: &Value) -> Option<Vec<Op>> {
    v.as_array()?.iter().map(Op::from_json).collect()
}

pub fn history_short(h: &[Op]) -> String {
    h.iter().map(|o| o.short()).collect::<Vec<_>>().join(" ")
}

/// Weights of the random generator; index = op class
#[derive(Clone, Debug)]
pub struct Profile {
    pub n_keys: u16,
    pub ts_max: u64,
    pub n_meta: u8,
    pub len_min: usize,
    pub len_max: usize,
    pub w_put: u32,
    pub w_put_meta: u32,
    pub w_del: u32,
    pub w_del_meta: u32,
    pub w_burst: u32,
    pub w_rotate: u32,
    pub w_close: u32,
    pub w_create: u32,
    pub w_restore: u32,
    pub w_bg: u32,
    pub w_force: u32,
    pub w_dump: u32,
    pub w_dump_nowait: u32,
    pub w_offload: u32,
    pub w_fsync: u32,
    pub w_restart: u32,
    pub restart_rm_idx: bool,
    pub big_values: bool,
}

impl Profile {
    /// C01: latest-version reads, ties and placement
    pub fn c01() -> Self {
        Profile {
            n_keys: 4, ts_max: 4, n_meta: 0, len_min: 6, len_max: 28,
            w_put: 40, w_put_meta: 0, w_del: 14, w_del_meta: 0, w_burst: 5, w_rotate: 10,
            w_close: 2, w_create: 1, w_restore: 3, w_bg: 0, w_force: 2, w_dump: 6, w_dump_nowait: 0,
            w_offload: 0, w_fsync: 0, w_restart: 6, restart_rm_idx: true, big_values: false,
        }
    }
    /// C02: version lists, metadata, deletion, duplicates
    pub fn c02() -> Self {
        Profile {
            n_keys: 3, ts_max: 5, n_meta: 2, len_min: 6, len_max: 26,
            w_put: 14, w_put_meta: 26, w_del: 14, w_del_meta: 6, w_burst: 3, w_rotate: 12,
            w_close: 2, w_create: 1, w_restore: 2, w_bg: 0, w_force: 1, w_dump: 5, w_dump_nowait: 0,
            w_offload: 0, w_fsync: 0, w_restart: 4, restart_rm_idx: true, big_values: false,
        }
    }
    /// C04: maintenance-heavy
    pub fn c04() -> Self {
        Profile {
            n_keys: 4, ts_max: 6, n_meta: 1, len_min: 8, len_max: 30,
            w_put: 22, w_put_meta: 6, w_del: 10, w_del_meta: 2, w_burst: 1, w_rotate: 4,
            w_close: 8, w_create: 6, w_restore: 8, w_bg: 9, w_force: 6, w_dump: 6, w_dump_nowait: 4,
            w_offload: 5, w_fsync: 4, w_restart: 3, restart_rm_idx: false, big_values: false,
        }
    }
    /// C15: accounting
    pub fn c15() -> Self {
        let mut p = Self::c04();
        p.w_del = 16;
        p.w_restart = 6;
        p.restart_rm_idx = true;
        p
    }
    /// C10 storage level: filters under close / restore / delete-in-closed / offload / restart
    pub fn c10() -> Self {
        Profile {
            n_keys: 10, ts_max: 6, n_meta: 0, len_min: 10, len_max: 40,
            w_put: 30, w_put_meta: 0, w_del: 10, w_del_meta: 0, w_burst: 0, w_rotate: 14,
            w_close: 5, w_create: 4, w_restore: 8, w_bg: 0, w_force: 3, w_dump: 8, w_dump_nowait: 2,
            w_offload: 12, w_fsync: 0, w_restart: 5, restart_rm_idx: true, big_values: false,
        }
    }
}

pub fn gen_history(rng: &mut Rng, p: &Profile) -> Vec<Op> {
    let len = rng.range(p.len_min as u64, p.len_max as u64) as usize;
    let mut h: Vec<Op> = Vec::with_capacity(len + 8);
    let weights = [
        p.w_put, p.w_put_meta, p.w_del, p.w_del_meta, p.w_burst, p.w_rotate, p.w_close, p.w_create,
        p.w_restore, p.w_bg, p.w_force, p.w_dump, p.w_dump_nowait, p.w_offload, p.w_fsync, p.w_restart,
    ];
    // per-history skew: some histories use one key only / a single timestamp (forces ties)
    let key_span = if rng.chance(1, 4) { 1 } else { p.n_keys };
    let ts_span = if rng.chance(1, 5) { 0 } else { p.ts_max };
    let size = |rng: &mut Rng| -> u32 {
        if p.big_values && rng.chance(1, 6) {
            *rng.pick(&[4000, 4100, 9000, 82_000, 100_000])
        } else {
            rng.range(8, 40) as u32
        }
    };
    while h.len() < len {
        let k = rng.below(key_span as u64) as u16;
        let ts = rng.range(0, ts_span);
        match rng.weighted(&weights) {
            0 => h.push(Op::Put { k, ts, meta: None, size: size(rng) }),
            1 => h.push(Op::Put { k, ts, meta: Some(rng.range(1, p.n_meta.max(1) as u64) as u8), size: size(rng) }),
            2 => h.push(Op::Del { k, ts, meta: None, only_if: rng.chance(1, 2) }),
            3 => h.push(Op::Del { k, ts, meta: Some(rng.range(1, p.n_meta.max(1) as u64) as u8), only_if: rng.chance(1, 2) }),
            4 => {
                // burst: 6..12 versions of one key with tied / close timestamps (binary-search insertion path)
                let n = rng.range(6, 12);
                for _ in 0..n {
                    let ts = rng.range(0, 2.min(p.ts_max));
                    let meta = if p.n_meta > 0 && rng.chance(1, 3) { Some(rng.range(1, p.n_meta as u64) as u8) } else { None };
                    h.push(Op::Put { k, ts, meta, size: size(rng) });
                }
            }
            5 => {
                h.push(Op::Close);
                h.push(Op::Create);
            }
            6 => h.push(Op::Close),
            7 => h.push(Op::Create),
            8 => h.push(Op::Restore),
            9 => h.push(match rng.below(3) {
                0 => Op::CloseBg,
                1 => Op::CreateBg,
                _ => Op::RestoreBg,
            }),
            10 => h.push(Op::ForceUpdate { pred: rng.chance(3, 4) }),
            11 => h.push(Op::Dump),
            12 => h.push(Op::DumpNoWait),
            13 => h.push(Op::Offload { needed: *rng.pick(&[1u32, 64, 100_000, u32::MAX]), level: rng.below(3) as u8 }),
            14 => h.push(Op::Fsync),
            _ => h.push(Op::Restart {
                lazy: rng.chance(1, 3),
                rm_idx: if p.restart_rm_idx && rng.chance(1, 2) { rng.next() } else { 0 },
            }),
        }
    }
    // one history in six: the (small) timestamps are mapped, order preserved, onto values at the edges of the
    // u64 range (0, 1, around 2^8 / 2^16 / 2^31 / 2^32 / 2^63, u64::MAX): every comparison, cast and sentinel sees them
    if rng.chance(1, 6) {
        let map = extreme_ts_map(rng, ts_span as usize);
        for op in h.iter_mut() {
            if let Op::Put { ts, .. } | Op::Del { ts, .. } = op {
                *ts = map[(*ts).min(7) as usize];
            }
        }
    }
    h
}

/// an increasing choice of values from the edges of the u64 range for the timestamps 0..=top (the rest repeats the
/// last one); in two of three maps the largest used timestamp lies above 2^63, in one of three the two largest
pub fn extreme_ts_map(rng: &mut Rng, top: usize) -> [u64; 8] {
    const POOL: [u64; 18] = [
        0, 1, 2, 255, 256, 65_535, 65_536, (1 << 31) - 1, 1 << 31, (1 << 32) - 1, 1 << 32, (1 << 62) + 1, (1 << 63) - 1, 1 << 63, (1 << 63) + 1,
        u64::MAX - 2, u64::MAX - 1, u64::MAX,
    ];
    let n = top.min(7) + 1;
    let mut idx: Vec<usize> = (0..POOL.len()).collect();
    for i in 0..n {
        let j = i + rng.below((idx.len() - i) as u64) as usize;
        idx.swap(i, j);
    }
    let mut pick: Vec<usize> = idx[..n].to_vec();
    pick.sort();
    if rng.chance(2, 3) {
        let hi = 14 + rng.below(4) as usize; // one of the four values above 2^63
        if pick[n - 1] < hi {
            pick[n - 1] = hi;
        }
        if n >= 2 && rng.chance(1, 2) && pick[n - 1] > 14 && pick[n - 2] < 14 {
            let second = 14 + rng.below((pick[n - 1] - 14) as u64) as usize;
            if second > pick[n - 2] && (n < 3 || second > pick[n - 3]) {
                pick[n - 2] = second;
            }
        }
    }
    let mut out = [0u64; 8];
    for k in 0..8 {
        out[k] = POOL[pick[k.min(n - 1)]];
    }
    out
}

/// Exhaustive enumeration of all histories of length `len` over a small alphabet (one key).
pub fn small_alphabet() -> Vec<Op> {
    vec![
        Op::Put { k: 0, ts: 1, meta: None, size: 9 },
        Op::Put { k: 0, ts: 2, meta: None, size: 9 },
        Op::Del { k: 0, ts: 1, meta: None, only_if: false },
        Op::Del { k: 0, ts: 2, meta: None, only_if: true },
        Op::ForceUpdate { pred: true }, // rotate through the worker
        Op::Restart { lazy: false, rm_idx: 0 },
    ]
}

/// The `idx`-th history of length `len` over `alphabet` (mixed radix)
pub fn nth_history(alphabet: &[Op], len: usize, mut idx: u64) -> Vec<Op> {
    let n = alphabet.len() as u64;
    let mut h = Vec::with_capacity(len);
    for _ in 0..len {
        h.push(alphabet[(idx % n) as usize].clone());
        idx /= n;
    }
    h
}

pub fn count_histories(alphabet_len: usize, len: usize) -> u64 {
    (alphabet_len as u64).pow(len as u32)
}
