//! Sequential reference model of `Storage`, written from the property statements (C01, C02, C04, C15).
//!
//! Rank of a record of a key: (timestamp desc, blob id desc, append position desc).

use std::collections::{BTreeMap, BTreeSet};

#[derive(Clone, Debug, PartialEq, Eq)]
pub struct Rec {
    pub key: u16,
    pub ts: u64,
    pub del: bool,
    /// meta id: 0 = written without meta (empty map), 1.. = entries of the meta alphabet
    pub meta: u8,
    /// unique value id (0 for markers)
    pub val: u64,
    pub size: u32,
}

#[derive(Clone, Debug, PartialEq, Eq)]
pub enum MRead {
    Found(Rec),
    Deleted(u64),
    NotFound,
}

impl MRead {
    pub fn is_found(&self) -> bool {
        matches!(self, MRead::Found(_))
    }
}

#[derive(Clone, Debug, PartialEq, Eq)]
pub enum MErr {
    ActiveExists,
    NoActive,
    NoClosed,
}

#[derive(Clone, Debug)]
pub struct Model {
    pub blobs: BTreeMap<usize, Vec<Rec>>,
    pub active: Option<usize>,
    pub closed: Vec<usize>,
    pub next_id: usize,
    pub ids_ever: BTreeSet<usize>,
    pub corrupted: usize,
    pub allow_dup: bool,
    /// placement invariants are not asserted (fault-injection runs re-read the placement from the storage)
    pub relaxed: bool,
}

impl Model {
    /// Fresh storage after `init` on an empty directory: one empty active blob with id 0
    pub fn new(allow_dup: bool) -> Self {
        let mut m = Model {
            blobs: BTreeMap::new(),
            active: None,
            closed: Vec::new(),
            next_id: 0,
            ids_ever: BTreeSet::new(),
            corrupted: 0,
            allow_dup,
            relaxed: false,
        };
        m.new_active();
        m
    }

    fn new_active(&mut self) -> usize {
        let id = self.next_id;
        self.next_id += 1;
        self.blobs.insert(id, Vec::new());
        self.ids_ever.insert(id);
        self.active = Some(id);
        id
    }

    fn check_invariants(&self) {
        if self.relaxed {
            return;
        }
        debug_assert!(self.closed.windows(2).all(|w| w[0] < w[1]));
        if let (Some(a), Some(c)) = (self.active, self.closed.last()) {
            debug_assert!(a > *c);
        }
    }

    /// All records of the key in rank order with their placement
    pub fn ranked(&self, key: u16) -> Vec<(Rec, usize, usize)> {
        let mut v: Vec<(Rec, usize, usize)> = Vec::new();
        for (id, recs) in self.blobs.iter() {
            for (pos, r) in recs.iter().enumerate() {
                if r.key == key {
                    v.push((r.clone(), *id, pos));
                }
            }
        }
        v.sort_by(|a, b| {
            b.0.ts
                .cmp(&a.0.ts)
                .then(b.1.cmp(&a.1))
                .then(b.2.cmp(&a.2))
        });
        v
    }

    pub fn read(&self, key: u16) -> MRead {
        match self.ranked(key).first() {
            None => MRead::NotFound,
            Some((r, _, _)) if r.del => MRead::Deleted(r.ts),
            Some((r, _, _)) => MRead::Found(r.clone()),
        }
    }

    /// `read_all_with_deletion_marker`: rank order, cut immediately after the first marker
    pub fn list_with_marker(&self, key: u16) -> Vec<Rec> {
        let mut out = Vec::new();
        for (r, _, _) in self.ranked(key) {
            let del = r.del;
            out.push(r);
            if del {
                break;
            }
        }
        out
    }

    pub fn list(&self, key: u16) -> Vec<Rec> {
        let mut l = self.list_with_marker(key);
        if l.last().map(|r| r.del).unwrap_or(false) {
            l.pop();
        }
        l
    }

    pub fn read_with(&self, key: u16, meta: u8) -> MRead {
        let l = self.list_with_marker(key);
        for r in l.iter() {
            if !r.del && r.meta == meta {
                return MRead::Found(r.clone());
            }
        }
        match l.last() {
            Some(r) if r.del => MRead::Deleted(r.ts),
            _ => MRead::NotFound,
        }
    }

    /// blob-local liveness: the blob-local top record of the key is a put
    pub fn blob_live(&self, blob: usize, key: u16) -> bool {
        let recs = match self.blobs.get(&blob) {
            Some(r) => r,
            None => return false,
        };
        let mut best: Option<(&Rec, usize)> = None;
        for (pos, r) in recs.iter().enumerate() {
            if r.key != key {
                continue;
            }
            best = match best {
                None => Some((r, pos)),
                Some((b, bp)) => {
                    if r.ts > b.ts || (r.ts == b.ts && pos > bp) {
                        Some((r, pos))
                    } else {
                        Some((b, bp))
                    }
                }
            };
        }
        best.map(|(r, _)| !r.del).unwrap_or(false)
    }

    /// returns whether the record was physically stored
    pub fn write(&mut self, key: u16, ts: u64, meta: Option<u8>, val: u64, size: u32) -> bool {
        if self.active.is_none() {
            self.new_active();
        }
        if !self.allow_dup {
            let live = match meta {
                None => self.read(key).is_found(),
                Some(m) => self.read_with(key, m).is_found(),
            };
            if live {
                return false;
            }
        }
        let a = self.active.unwrap();
        self.blobs.get_mut(&a).unwrap().push(Rec {
            key,
            ts,
            del: false,
            meta: meta.unwrap_or(0),
            val,
            size,
        });
        true
    }

    /// returns the number of blobs marked
    pub fn delete(&mut self, key: u16, ts: u64, meta: Option<u8>, only_if_presented: bool) -> u64 {
        if !only_if_presented && self.active.is_none() {
            self.new_active();
        }
        let marker = Rec {
            key,
            ts,
            del: true,
            meta: meta.unwrap_or(0),
            val: 0,
            size: 0,
        };
        let mut n = 0;
        let mut targets = Vec::new();
        if let Some(a) = self.active {
            if !only_if_presented || self.blob_live(a, key) {
                targets.push(a);
            }
        }
        for c in self.closed.clone() {
            if self.blob_live(c, key) {
                targets.push(c);
            }
        }
        for t in targets {
            self.blobs.get_mut(&t).unwrap().push(marker.clone());
            n += 1;
        }
        n
    }

    pub fn close_active(&mut self) -> Result<(), MErr> {
        match self.active.take() {
            None => Err(MErr::NoActive),
            Some(a) => {
                self.closed.push(a);
                self.check_invariants();
                Ok(())
            }
        }
    }

    pub fn create_active(&mut self) -> Result<(), MErr> {
        if self.active.is_some() {
            return Err(MErr::ActiveExists);
        }
        self.new_active();
        self.check_invariants();
        Ok(())
    }

    pub fn restore_active(&mut self) -> Result<(), MErr> {
        if self.active.is_some() {
            return Err(MErr::ActiveExists);
        }
        match self.closed.pop() {
            None => Err(MErr::NoClosed),
            Some(c) => {
                self.active = Some(c);
                Ok(())
            }
        }
    }

    /// force_update_active_blob with predicate value `pred`
    pub fn force_update(&mut self, pred: bool) {
        if !pred {
            return;
        }
        if let Some(a) = self.active.take() {
            self.closed.push(a);
        }
        self.new_active();
        self.check_invariants();
    }

    /// clean close + reopen
    pub fn restart(&mut self, lazy: bool) {
        let mut ids: Vec<usize> = self.blobs.keys().copied().collect();
        ids.sort();
        self.active = None;
        if ids.is_empty() {
            // directory without blobs: init creates a new one
            self.closed.clear();
            self.new_active();
            return;
        }
        if !lazy {
            self.active = ids.pop();
        }
        self.closed = ids;
        self.check_invariants();
    }

    /// a blob file was quarantined at start-up
    pub fn quarantine(&mut self, blob: usize) {
        self.blobs.remove(&blob);
        self.closed.retain(|c| *c != blob);
        if self.active == Some(blob) {
            self.active = None;
        }
        self.corrupted += 1;
    }

    pub fn records_count(&self) -> usize {
        self.blobs.values().map(|v| v.len()).sum()
    }

    pub fn records_in_active(&self) -> Option<usize> {
        self.active.map(|a| self.blobs[&a].len())
    }

    pub fn blobs_count(&self) -> usize {
        self.closed.len() + self.active.is_some() as usize
    }

    /// (closed blob id, count)* then the active blob's count
    pub fn records_detailed(&self) -> (Vec<(usize, usize)>, Option<usize>) {
        (
            self.closed
                .iter()
                .map(|c| (*c, self.blobs[c].len()))
                .collect(),
            self.records_in_active(),
        )
    }

    pub fn keys(&self) -> BTreeSet<u16> {
        self.blobs
            .values()
            .flat_map(|v| v.iter().map(|r| r.key))
            .collect()
    }

    /// blobs that physically hold at least one record of the key
    pub fn blobs_with_key(&self, key: u16) -> Vec<usize> {
        self.blobs
            .iter()
            .filter(|(_, v)| v.iter().any(|r| r.key == key))
            .map(|(id, _)| *id)
            .collect()
    }
}

#[cfg(test)]
mod tests {
    use super::*;

    #[test]
    fn rank_and_cut() {
        let mut m = Model::new(true);
        m.write(1, 5, Some(1), 100, 3);
        m.write(1, 1, Some(2), 101, 3);
        m.close_active().unwrap();
        m.create_active().unwrap();
        assert_eq!(m.delete(1, 3, None, false), 2);
        assert_eq!(m.list_with_marker(1).len(), 2);
        assert!(matches!(m.read_with(1, 2), MRead::Deleted(3)));
        assert!(m.read_with(1, 1).is_found());
        assert!(m.read(1).is_found());
    }
}
