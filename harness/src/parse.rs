//! Independent parser of pearl blob and index files (no pearl code): layout knowledge comes from the
//! format description only (bincode little-endian fixed-int encoding).

use sha2::{Digest, Sha256};

pub const BLOB_MAGIC: u64 = 0xdeaf_abcd;
pub const RECORD_MAGIC: u64 = 0xacdc_bcde;
pub const INDEX_MAGIC: u64 = 0xacdc_bcde;
pub const BLOB_HEADER_LEN: usize = 20;
pub const INDEX_HEADER_LEN: usize = 83;

fn crc32c_table() -> &'static [u32; 256] {
    static T: std::sync::OnceLock<[u32; 256]> = std::sync::OnceLock::new();
    T.get_or_init(|| {
        let mut t = [0u32; 256];
        for i in 0..256u32 {
            let mut c = i;
            for _ in 0..8 {
                c = if c & 1 != 0 { (c >> 1) ^ 0x82F6_3B78 } else { c >> 1 };
            }
            t[i as usize] = c;
        }
        t
    })
}

pub fn crc32c(data: &[u8]) -> u32 {
    let t = crc32c_table();
    let mut c = 0xFFFF_FFFFu32;
    for b in data {
        c = t[((c ^ *b as u32) & 0xFF) as usize] ^ (c >> 8);
    }
    c ^ 0xFFFF_FFFF
}

fn u64_at(b: &[u8], o: usize) -> Option<u64> {
    b.get(o..o + 8).map(|s| u64::from_le_bytes(s.try_into().unwrap()))
}
fn u32_at(b: &[u8], o: usize) -> Option<u32> {
    b.get(o..o + 4).map(|s| u32::from_le_bytes(s.try_into().unwrap()))
}
fn u16_at(b: &[u8], o: usize) -> Option<u16> {
    b.get(o..o + 2).map(|s| u16::from_le_bytes(s.try_into().unwrap()))
}

#[derive(Clone, Debug, PartialEq, Eq)]
pub struct PRec {
    /// position of the record header in the file
    pub pos: u64,
    pub key: Vec<u8>,
    pub meta_size: u64,
    pub data_size: u64,
    pub flags: u8,
    pub blob_offset: u64,
    pub ts: u64,
    pub data_checksum: u32,
    pub header_checksum: u32,
    pub header_len: u64,
    pub meta: Vec<u8>,
    pub data: Vec<u8>,
    pub header_crc_ok: bool,
    pub data_crc_ok: bool,
}

impl PRec {
    pub fn deleted(&self) -> bool {
        self.flags & 1 == 1
    }
    pub fn total_len(&self) -> u64 {
        self.header_len + self.meta_size + self.data_size
    }
    pub fn end(&self) -> u64 {
        self.pos + self.total_len()
    }
    pub fn sound(&self) -> bool {
        self.header_crc_ok && self.data_crc_ok && self.blob_offset == self.pos
    }
}

#[derive(Clone, Debug, Default)]
pub struct BlobParse {
    pub len: u64,
    pub header_ok: bool,
    pub magic: u64,
    pub version: u32,
    pub flags: u64,
    pub records: Vec<PRec>,
    /// offset after the last completely parsed record
    pub end: u64,
    /// why parsing stopped before EOF (None = the file parses completely)
    pub error: Option<String>,
}

impl BlobParse {
    /// header valid, every record sound and contiguous up to EOF
    pub fn complete_and_sound(&self) -> bool {
        self.header_ok && self.error.is_none() && self.end == self.len && self.records.iter().all(|r| r.sound())
    }
    /// end offsets of every complete record (record boundaries), including the header end
    pub fn boundaries(&self) -> Vec<u64> {
        let mut v = vec![BLOB_HEADER_LEN as u64];
        v.extend(self.records.iter().map(|r| r.end()));
        v
    }
}

/// Parses one record header at `pos`; returns None if the bytes are not there
fn parse_rec(b: &[u8], pos: usize) -> Result<PRec, String> {
    let magic = u64_at(b, pos).ok_or("eof in record magic")?;
    if magic != RECORD_MAGIC {
        return Err(format!("bad record magic {:#x} at {}", magic, pos));
    }
    let klen = u64_at(b, pos + 8).ok_or("eof in key len")? as usize;
    if klen > 65536 {
        return Err(format!("implausible key length {} at {}", klen, pos));
    }
    let mut o = pos + 16;
    let key = b.get(o..o + klen).ok_or("eof in key")?.to_vec();
    o += klen;
    let meta_size = u64_at(b, o).ok_or("eof in meta_size")?;
    let data_size = u64_at(b, o + 8).ok_or("eof in data_size")?;
    let flags = *b.get(o + 16).ok_or("eof in flags")?;
    let blob_offset = u64_at(b, o + 17).ok_or("eof in blob_offset")?;
    let ts = u64_at(b, o + 25).ok_or("eof in timestamp")?;
    let data_checksum = u32_at(b, o + 33).ok_or("eof in data_checksum")?;
    let header_checksum = u32_at(b, o + 37).ok_or("eof in header_checksum")?;
    let header_len = (o + 41 - pos) as u64;
    let mut hdr = b[pos..o + 41].to_vec();
    let n = hdr.len();
    hdr[n - 4..].copy_from_slice(&[0, 0, 0, 0]);
    let header_crc_ok = crc32c(&hdr) == header_checksum;
    let mstart = o + 41;
    if !header_crc_ok {
        // sizes cannot be trusted
        return Ok(PRec {
            pos: pos as u64, key, meta_size, data_size, flags, blob_offset, ts, data_checksum, header_checksum, header_len,
            meta: Vec::new(), data: Vec::new(), header_crc_ok, data_crc_ok: false,
        });
    }
    let mend = mstart.checked_add(meta_size as usize).ok_or("overflow")?;
    let dend = mend.checked_add(data_size as usize).ok_or("overflow")?;
    let meta = b.get(mstart..mend).ok_or_else(|| format!("eof in meta of record at {}", pos))?.to_vec();
    let data = b.get(mend..dend).ok_or_else(|| format!("eof in data of record at {}", pos))?.to_vec();
    let data_crc_ok = crc32c(&data) == data_checksum;
    Ok(PRec {
        pos: pos as u64, key, meta_size, data_size, flags, blob_offset, ts, data_checksum, header_checksum, header_len,
        meta, data, header_crc_ok, data_crc_ok,
    })
}

pub fn parse_blob(b: &[u8]) -> BlobParse {
    let mut p = BlobParse { len: b.len() as u64, ..Default::default() };
    if b.len() < BLOB_HEADER_LEN {
        p.error = Some("file shorter than the blob header".into());
        return p;
    }
    p.magic = u64_at(b, 0).unwrap();
    p.version = u32_at(b, 8).unwrap();
    p.flags = u64_at(b, 12).unwrap();
    p.header_ok = p.magic == BLOB_MAGIC;
    p.end = BLOB_HEADER_LEN as u64;
    if !p.header_ok {
        p.error = Some("bad blob magic".into());
        return p;
    }
    let mut pos = BLOB_HEADER_LEN;
    while pos < b.len() {
        match parse_rec(b, pos) {
            Ok(r) => {
                if !r.header_crc_ok {
                    p.error = Some(format!("record header checksum mismatch at {}", pos));
                    p.records.push(r);
                    return p;
                }
                pos = r.end() as usize;
                p.end = pos as u64;
                p.records.push(r);
            }
            Err(e) => {
                p.error = Some(e);
                return p;
            }
        }
    }
    p
}

pub fn parse_blob_file(path: &std::path::Path) -> std::io::Result<BlobParse> {
    Ok(parse_blob(&std::fs::read(path)?))
}

/// Decodes a bincode `HashMap<String, Vec<u8>>`
pub fn parse_meta(b: &[u8]) -> Option<Vec<(String, Vec<u8>)>> {
    let n = u64_at(b, 0)? as usize;
    let mut o = 8;
    let mut out = Vec::new();
    for _ in 0..n {
        let kl = u64_at(b, o)? as usize;
        o += 8;
        let k = String::from_utf8(b.get(o..o + kl)?.to_vec()).ok()?;
        o += kl;
        let vl = u64_at(b, o)? as usize;
        o += 8;
        let v = b.get(o..o + vl)?.to_vec();
        o += vl;
        out.push((k, v));
    }
    if o != b.len() {
        return None;
    }
    out.sort();
    Some(out)
}

#[derive(Clone, Debug, PartialEq, Eq)]
pub struct PHeader {
    pub key: Vec<u8>,
    pub meta_size: u64,
    pub data_size: u64,
    pub flags: u8,
    pub blob_offset: u64,
    pub ts: u64,
    pub data_checksum: u32,
    pub header_checksum: u32,
}

#[derive(Clone, Debug, Default)]
pub struct IndexParse {
    pub len: u64,
    pub magic: u64,
    pub records_count: u64,
    pub record_header_size: u64,
    pub meta_size: u64,
    pub hash: Vec<u8>,
    pub version_byte: u8,
    pub key_size: u16,
    pub blob_size: u64,
    pub leaves_offset: u64,
    pub tree_offset: u64,
    pub headers: Vec<PHeader>,
    pub hash_ok: bool,
    /// named structure boundaries (offsets)
    pub boundaries: Vec<(String, u64)>,
    pub node_offsets: Vec<u64>,
    pub levels: u32,
    pub error: Option<String>,
}

impl IndexParse {
    pub fn written(&self) -> bool {
        self.version_byte & 1 == 1
    }
    pub fn version(&self) -> u8 {
        self.version_byte >> 1
    }
    pub fn filters_offset(&self) -> u64 {
        INDEX_HEADER_LEN as u64
    }
    /// offset (within the file) of the bloom section inside the filter meta buffer
    pub fn bloom_section(&self, b: &[u8]) -> Option<(usize, usize)> {
        let start = INDEX_HEADER_LEN;
        let range_size = u64_at(b, start)? as usize;
        let bloom_start = start + 8 + range_size;
        let end = start + self.meta_size as usize;
        if bloom_start <= end && end <= b.len() {
            Some((bloom_start, end))
        } else {
            None
        }
    }
}

pub fn parse_index(b: &[u8]) -> IndexParse {
    let mut p = IndexParse { len: b.len() as u64, ..Default::default() };
    if b.len() < INDEX_HEADER_LEN {
        p.error = Some("file shorter than the index header".into());
        return p;
    }
    p.magic = u64_at(b, 0).unwrap();
    p.records_count = u64_at(b, 8).unwrap();
    p.record_header_size = u64_at(b, 16).unwrap();
    p.meta_size = u64_at(b, 24).unwrap();
    let hl = u64_at(b, 32).unwrap();
    if hl != 32 {
        p.error = Some(format!("hash length {} != 32", hl));
        return p;
    }
    p.hash = b[40..72].to_vec();
    p.version_byte = b[72];
    p.key_size = u16_at(b, 73).unwrap();
    p.blob_size = u64_at(b, 75).unwrap();
    p.boundaries.push(("header_end".into(), INDEX_HEADER_LEN as u64));
    let filters_end = INDEX_HEADER_LEN as u64 + p.meta_size;
    p.boundaries.push(("filters_end".into(), filters_end));
    let tm = filters_end as usize;
    let (lo, to) = match (u64_at(b, tm), u64_at(b, tm + 8)) {
        (Some(l), Some(t)) => (l, t),
        _ => {
            p.error = Some("eof in tree meta".into());
            return p;
        }
    };
    p.leaves_offset = lo;
    p.tree_offset = to;
    p.boundaries.push(("tree_meta_end".into(), filters_end + 16));
    p.boundaries.push(("leaves_start".into(), lo));
    // walk inner nodes sequentially
    let ks = p.key_size as u64;
    let mut o = to;
    while o < lo {
        let sz = match u64_at(b, o as usize) {
            Some(s) => s,
            None => {
                p.error = Some("eof in node".into());
                return p;
            }
        };
        p.node_offsets.push(o);
        p.boundaries.push((format!("node@{}", o), o));
        o += 8 + sz * ks + (sz + 1) * 8;
    }
    if o != lo && lo >= to {
        p.error = Some(format!("inner nodes end at {} but leaves start at {}", o, lo));
    }
    // depth: follow the leftmost pointers from the root
    let mut depth = 0u32;
    let mut cur = to;
    while cur < lo {
        depth += 1;
        let sz = match u64_at(b, cur as usize) {
            Some(s) => s,
            None => break,
        };
        let first_ptr = cur + 8 + sz * ks;
        cur = match u64_at(b, first_ptr as usize) {
            Some(c) => c,
            None => break,
        };
        if depth > 16 {
            break;
        }
    }
    p.levels = depth;
    let rhs = p.record_header_size as usize;
    if rhs == 0 {
        p.error = Some("zero record header size".into());
        return p;
    }
    for i in 0..p.records_count as usize {
        let s = lo as usize + i * rhs;
        let h = match b.get(s..s + rhs) {
            Some(h) => h,
            None => {
                p.error = Some(format!("eof in leaf header {}", i));
                break;
            }
        };
        let klen = u64_at(h, 8).unwrap_or(0) as usize;
        if 16 + klen + 41 != rhs {
            p.error = Some(format!("leaf header {} has key length {}", i, klen));
            break;
        }
        let o = 16 + klen;
        p.headers.push(PHeader {
            key: h[16..16 + klen].to_vec(),
            meta_size: u64_at(h, o).unwrap(),
            data_size: u64_at(h, o + 8).unwrap(),
            flags: h[o + 16],
            blob_offset: u64_at(h, o + 17).unwrap(),
            ts: u64_at(h, o + 25).unwrap(),
            data_checksum: u32_at(h, o + 33).unwrap(),
            header_checksum: u32_at(h, o + 37).unwrap(),
        });
        if i > 0 && (s as u64 - lo) % 4096 < rhs as u64 {
            p.boundaries.push((format!("leaf_block@{}", s), s as u64));
        }
    }
    p.boundaries.push(("last_header_start".into(), (lo as usize + (p.records_count as usize).saturating_sub(1) * rhs) as u64));
    p.boundaries.push(("file_end".into(), lo + p.records_count * rhs as u64));
    // hash: sha256 over the whole file with hash zeroed and written bit cleared
    let mut c = b.to_vec();
    for x in c[40..72].iter_mut() {
        *x = 0;
    }
    c[72] &= !1;
    p.hash_ok = Sha256::digest(&c).as_slice() == p.hash.as_slice();
    p
}

#[cfg(test)]
mod tests {
    use super::*;
    #[test]
    fn crc_vector() {
        // CRC-32C("123456789") = 0xE3069283
        assert_eq!(crc32c(b"123456789"), 0xE306_9283);
    }
}
