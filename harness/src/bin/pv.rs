use pv::{checks, runner};

fn usage() -> i32 {
    eprintln!("usage: pv check <ID> <quick|thorough> | pv shard ... | pv replay <file>");
    2
}

fn main() {
    let args: Vec<String> = std::env::args().skip(1).collect();
    let code = match args.first().map(|s| s.as_str()) {
        Some("check") if args.len() >= 3 => {
            let id = args[1].to_uppercase();
            match checks::plan_for(&id) {
                Some(plan) => runner::run_parent(&plan, &args[2]),
                None => {
                    eprintln!("unknown property {}", id);
                    2
                }
            }
        }
        Some("shard") if args.len() >= 8 => {
            let id = args[1].clone();
            runner::run_child(&args[1..], |ctx| checks::shard_for(&id, ctx).unwrap_or_default())
        }
        Some("replay") if args.len() >= 2 => pv::replay::replay(std::path::Path::new(&args[1])),
        Some("c07strace") if args.len() >= 4 => checks::c07::strace_main(&args[1..]),
        Some("c08san") => checks::c08::san_main(&args[1..]),
        Some("c06child") if args.len() >= 4 => checks::c06_kill::child_main(&args[1..]),
        Some("c06verify") if args.len() >= 3 => checks::c06_kill::verify_main(&args[1..]),
        Some("dump") if args.len() >= 2 => {
            // debugging aid: independent parse of a blob or index file
            let p = std::path::Path::new(&args[1]);
            let b = std::fs::read(p).unwrap_or_default();
            if args[1].ends_with(".index") {
                let ip = pv::parse::parse_index(&b);
                println!("index len={} records={} blob_size={} hash_ok={} version_byte={} headers={}", ip.len, ip.records_count, ip.blob_size, ip.hash_ok, ip.version_byte, ip.headers.len());
                for h in ip.headers.iter() {
                    println!("  key={:02x?} ts={} off={} data={} meta={} flags={}", &h.key[..h.key.len().min(8)], h.ts, h.blob_offset, h.data_size, h.meta_size, h.flags);
                }
            } else {
                let bp = pv::parse::parse_blob(&b);
                println!("blob len={} header_ok={} parsed_end={} error={:?}", bp.len, bp.header_ok, bp.end, bp.error);
                for r in bp.records.iter() {
                    println!("  @{} key={:02x?} ts={} data={} meta={} flags={} off_field={} hdr_ok={} data_ok={}", r.pos, &r.key[..r.key.len().min(8)], r.ts, r.data_size, r.meta_size, r.flags, r.blob_offset, r.header_crc_ok, r.data_crc_ok);
                }
            }
            0
        }
        _ => usage(),
    };
    std::process::exit(code);
}
