use pv::{checks, runner};

fn usage() -> i32 {
    eprintln!("usage: pv check <ID> <quick|thorough> | pv shard ... | pv replay <file>");
    2
}

fn main() {
    let args: Vec<String> = std::env::args().skip(1).collect();
    let code = match args.first().map(|s| s.as_str()) {
        Some("check") if args.len() >= 3 => {
            let id = args[1].to_uppercase();
            match checks::plan_for(&id) {
                Some(plan) => runner::run_parent(&plan, &args[2]),
                None => {
                    eprintln!("unknown property {}", id);
                    2
                }
            }
        }
        Some("shard") if args.len() >= 8 => {
            let id = args[1].clone();
            runner::run_child(&args[1..], |ctx| checks::shard_for(&id, ctx).unwrap_or_default())
        }
        Some("replay") if args.len() >= 2 => pv::replay::replay(std::path::Path::new(&args[1])),
        Some("c07strace") if args.len() >= 4 => checks::c07::strace_main(&args[1..]),
        Some("c08san") => checks::c08::san_main(&args[1..]),
        Some("c06child") if args.len() >= 4 => checks::c06_kill::child_main(&args[1..]),
        Some("c06verify") if args.len() >= 3 => checks::c06_kill::verify_main(&args[1..]),
        _ => usage(),
    };
    std::process::exit(code);
}
