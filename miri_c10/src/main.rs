use pearl::filter::{CombinedFilter, FilterTrait, RangeFilter};
use pearl::{ArrayKey, Bloom, BloomConfig, BloomDataProvider, FilterResult};
use std::sync::Arc;

struct Raw(Vec<u8>);

#[async_trait::async_trait]
impl BloomDataProvider for Raw {
    async fn read_byte(&self, index: u64) -> anyhow::Result<u8> {
        self.0.get(index as usize).copied().ok_or_else(|| anyhow::anyhow!("out of range"))
    }
}

fn splitmix(x: &mut u64) -> u64 {
    *x = x.wrapping_add(0x9E37_79B9_7F4A_7C15);
    let mut z = *x;
    z = (z ^ (z >> 30)).wrapping_mul(0xBF58_476D_1CE4_E5B9);
    z = (z ^ (z >> 27)).wrapping_mul(0x94D0_49BB_1331_11EB);
    z ^ (z >> 31)
}

fn bytes(s: &mut u64, n: usize) -> Vec<u8> {
    let mut v = Vec::new();
    while v.len() < n {
        v.extend_from_slice(&splitmix(s).to_le_bytes());
    }
    v.truncate(n);
    v
}

fn maybe(r: Option<FilterResult>) -> bool {
    !matches!(r, Some(FilterResult::NotContains))
}

fn main() {
    let seed: u64 = std::env::args().nth(1).and_then(|s| s.parse().ok()).unwrap_or(1);
    let cases: usize = std::env::args().nth(2).and_then(|s| s.parse().ok()).unwrap_or(6);
    let mut s = seed;
    let mut keys_checked = 0u64;
    for c in 0..cases {
        let cfg = BloomConfig {
            elements: 1 + (splitmix(&mut s) % 40) as usize,
            hashers_count: 1 + (splitmix(&mut s) % 4) as usize,
            max_buf_bits_count: 1 + (splitmix(&mut s) % 700) as usize,
            buf_increase_step: 3,
            preferred_false_positive_rate: 0.01,
        };
        let bloom = Bloom::new(cfg.clone());
        let mut added = Vec::new();
        for _ in 0..(splitmix(&mut s) % 12) {
            // key lengths cover every tail-handling branch of the fallback hasher (1..8, 9..16, >16, >32)
            let l = [1usize, 2, 3, 4, 7, 8, 9, 15, 16, 17, 31, 32, 33, 64, 65][(splitmix(&mut s) % 15) as usize];
            let k = bytes(&mut s, l);
            bloom.add(&k).expect("add");
            added.push(k);
        }
        let raw = bloom.to_raw().expect("to_raw");
        let back = Bloom::from_raw(&raw).expect("from_raw");
        let mut off = bloom.clone();
        off.offload_from_memory();
        let prov = Raw(raw);
        let mut probes = added.clone();
        for _ in 0..6 {
            let l = 1 + (splitmix(&mut s) % 40) as usize;
            probes.push(bytes(&mut s, l));
        }
        for k in probes.iter() {
            let m = maybe(bloom.contains_in_memory(k));
            assert_eq!(m, maybe(back.contains_in_memory(k)), "from_raw differs (case {})", c);
            let f = futures::executor::block_on(off.contains_in_file(&prov, k)).expect("contains_in_file") != FilterResult::NotContains;
            assert_eq!(m, f, "off-loaded probe differs (case {})", c);
            keys_checked += 1;
        }
        for k in added.iter() {
            assert!(maybe(bloom.contains_in_memory(k)), "false negative (case {})", c);
        }
        // merge
        let other = Bloom::new(cfg.clone());
        let ok = bytes(&mut s, 5);
        other.add(&ok).expect("add");
        let mut merged = bloom.clone();
        if merged.checked_add_assign(&other) {
            assert!(maybe(merged.contains_in_memory(&ok)));
            for k in added.iter() {
                assert!(maybe(merged.contains_in_memory(k)));
            }
        }
        // range + combined
        let comb: CombinedFilter<ArrayKey<8>> = CombinedFilter::new(Some(Bloom::new(cfg)), RangeFilter::new());
        let k8 = ArrayKey::<8>::from(bytes(&mut s, 8));
        FilterTrait::add(&comb, &k8);
        assert!(comb.contains_fast(&k8) != FilterResult::NotContains);
    }
    // 4-thread concurrent add / contains / clone+merge on one shared filter (data-race detection)
    let shared = Arc::new(Bloom::new(BloomConfig { elements: 30, hashers_count: 2, max_buf_bits_count: 333, buf_increase_step: 3, preferred_false_positive_rate: 0.01 }));
    let mut hs = Vec::new();
    for t in 0..4u64 {
        let b = shared.clone();
        hs.push(std::thread::spawn(move || {
            let mut s = 100 + t;
            let mut mine = Vec::new();
            for i in 0..6 {
                let k = bytes(&mut s, 3 + (i % 20));
                b.add(&k).expect("add");
                assert!(maybe(b.contains_in_memory(&k)), "false negative under concurrency");
                mine.push(k);
                if i % 3 == 0 {
                    let mut c = (*b).clone();
                    let _ = c.checked_add_assign(&b);
                    let _ = b.to_raw();
                }
            }
            for k in mine {
                assert!(maybe(b.contains_in_memory(&k)));
            }
        }));
    }
    for h in hs {
        h.join().expect("thread");
    }
    println!("MIRI_C10 ok cases={} keys_checked={} threads=4", cases, keys_checked);
}
